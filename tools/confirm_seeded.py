#!/venv/bin/python
"""tools/confirm_seeded.py <source dir with patch.diff/demo.py/notes.md> <name> <property> <check ids,comma> [--needs TEXT]

Independently confirms a seeded change (made by a sub-agent in its own worktree) and records it
under /verif/seeded/<name>/: the patch applies to /repo's HEAD, the library still imports, the
existing suite passes on the changed tree, the demonstration fails with the change and passes
without it, and what each listed check says about it (quick tier, run against a scratch worktree
with the patch applied through MIROS_REPO; evidence and replay files go to scratch)."""
import json
import os
import re
import shutil
import subprocess
import sys

VERIF = os.path.dirname(os.path.dirname(os.path.abspath(__file__)))


def sh(cmd, cwd=None, env=None, timeout=3600):
  e = dict(os.environ)
  if env:
    e.update(env)
  p = subprocess.run(cmd, shell=True, cwd=cwd, env=e, stdout=subprocess.PIPE, stderr=subprocess.STDOUT, text=True, timeout=timeout)
  return p.returncode, p.stdout


def main():
  src, name, prop, checks = sys.argv[1], sys.argv[2], sys.argv[3], sys.argv[4].split(',')
  needs = ''
  if '--needs' in sys.argv:
    needs = sys.argv[sys.argv.index('--needs') + 1]
  dst = os.path.join(VERIF, 'seeded', name)
  os.makedirs(dst, exist_ok=True)
  for f in ('patch.diff', 'demo.py'):
    shutil.copy(os.path.join(src, f), os.path.join(dst, f))
  if os.path.exists(os.path.join(src, 'notes.md')):
    shutil.copy(os.path.join(src, 'notes.md'), os.path.join(dst, 'agent_notes.md'))
  head = sh('git -C /repo rev-parse --short HEAD')[1].strip()
  wt = '/tmp/seedwt/%s' % name
  base = '/tmp/seedwt/base-%s' % head
  sh('rm -rf %s; git -C /repo worktree prune; mkdir -p /tmp/seedwt' % wt)
  rc, out = sh('git -C /repo worktree add -q --detach %s HEAD' % wt)
  meta = {'name': name, 'property': prop, 'needs_to_manifest': needs, 'repo_head': head, 'ran': {}}
  try:
    rc, out = sh('git apply %s' % os.path.join(dst, 'patch.diff'), cwd=wt)
    if rc != 0:
      # the change was made against an earlier HEAD: merge it
      rc, out = sh('git apply --3way %s' % os.path.join(dst, 'patch.diff'), cwd=wt)
      if rc == 0:
        sh('git reset -q', cwd=wt)
    meta['ran']['git apply on a fresh worktree of /repo HEAD'] = 'ok' if rc == 0 else 'FAILED: ' + out[-300:]
    if rc != 0:
      raise SystemExit('patch does not apply')
    meta['files_changed'] = sh('git diff --stat', cwd=wt)[1].strip().splitlines()[:-1]
    if not os.path.isdir(base):
      os.makedirs(base)
      sh('git -C /repo archive HEAD | tar -x -C %s' % base)
    env = {'PYTHONPATH': wt}
    rc, out = sh('timeout 120 /venv/bin/python -c "import miros, miros.activeobject; print(miros.__file__)"', cwd=wt, env=env)
    meta['ran']['import miros from the changed tree'] = out.strip().splitlines()[-1] if out.strip() else 'rc=%d' % rc
    # existing suite on the changed tree; sleep-based groups are re-run alone when they fail
    rc, out = sh('timeout 1500 /venv/bin/python -m pytest -q -p no:cacheprovider --timeout=900 --deselect test/crypto_test.py::test_cryptography', cwd=wt, env=env)
    summary = out.strip().splitlines()[-1] if out.strip() else ''
    failed = re.findall(r'^FAILED (\S+)', out, flags=re.M)
    still = []
    for t in failed:
      ok = False
      for _ in range(3):
        r2, o2 = sh('timeout 600 /venv/bin/python -m pytest -q -p no:cacheprovider --timeout=900 "%s"' % t, cwd=wt, env=env)
        if r2 == 0:
          ok = True
          break
      if not ok:
        still.append(t)
    meta['ran']['existing suite on the changed tree (crypto test deselected)'] = {
      'summary': summary, 'failed_in_full_run': failed, 'still_failing_when_rerun_alone': still}
    meta['suite_passes'] = not still
    rc1, o1 = sh('timeout 900 /venv/bin/python %s' % os.path.join(dst, 'demo.py'), cwd=wt, env=env)
    rc0, o0 = sh('timeout 900 /venv/bin/python %s' % os.path.join(dst, 'demo.py'), cwd=base, env={'PYTHONPATH': base})
    meta['ran']['demo.py on the changed tree'] = {'rc': rc1, 'last_line': (o1.strip().splitlines() or [''])[-1][:300]}
    meta['ran']['demo.py on the unchanged tree'] = {'rc': rc0, 'last_line': (o0.strip().splitlines() or [''])[-1][:300]}
    meta['demo_discriminates'] = (rc1 == 1 and rc0 == 0)
    meta['checks'] = {}
    scratch = '/tmp/seedwt/out-%s' % name
    os.makedirs(scratch + '/evidence', exist_ok=True)
    os.makedirs(scratch + '/replays', exist_ok=True)
    for c in checks:
      rc, out = sh('timeout 1800 ./verif check %s --tier quick' % c, cwd=VERIF,
                   env={'MIROS_REPO': wt, 'VERIF_EVIDENCE_DIR': scratch + '/evidence', 'VERIF_REPLAY_DIR': scratch + '/replays'})
      rules = sorted(set(re.findall(r'rule=(\S+)', out)))
      m = re.search(r'runs=(\d+) ok=(\d+) inconclusive=(\d+) violating=(\d+)', out)
      fresh = re.findall(r'replayed in a fresh process: (.*)', out)
      meta['checks'][c] = {'exit': rc, 'caught': rc == 1, 'rules': rules,
                           'runs': int(m.group(1)) if m else None, 'violating_runs': int(m.group(4)) if m else None,
                           'replay_in_fresh_process': sorted(set(fresh))}
    meta['caught_by'] = sorted(c for c, v in meta['checks'].items() if v['caught'])
  finally:
    sh('git -C /repo worktree remove --force %s' % wt)
    with open(os.path.join(dst, 'meta.json'), 'w') as fh:
      json.dump(meta, fh, indent=1)
  print('%s: suite_passes=%s demo=%s caught_by=%s' % (name, meta.get('suite_passes'), meta.get('demo_discriminates'), meta.get('caught_by')))
  for c, v in meta.get('checks', {}).items():
    print('   %s exit=%s violating=%s/%s rules=%s' % (c, v['exit'], v['violating_runs'], v['runs'], v['rules']))


if __name__ == '__main__':
  main()
