#!/venv/bin/python
"""prints the markdown table of DESIGN.md section 14 from seeded/*/meta.json"""
import glob
import json
import os

VERIF = os.path.dirname(os.path.dirname(os.path.abspath(__file__)))
rows = []
for f in sorted(glob.glob(os.path.join(VERIF, 'seeded', '*', 'meta.json'))):
  m = json.load(open(f))
  checks = []
  for c, v in sorted(m.get('checks', {}).items()):
    if v['caught']:
      checks.append('**%s** %s/%s runs: %s' % (c, v['violating_runs'], v['runs'], ', '.join('`%s`' % r for r in v['rules'][:4])))
    else:
      checks.append('%s: not caught (exit %s)' % (c, v['exit']))
  ok = 'yes' if (m.get('suite_passes') and m.get('demo_discriminates')) else 'NO (suite_passes=%s demo=%s)' % (m.get('suite_passes'), m.get('demo_discriminates'))
  if m.get('later'):
    checks.append('*later:* ' + m['later'])
  rows.append('| `%s` | %s | %s | %s | %s |' % (m['name'], m['property'], m.get('needs_to_manifest', ''), ok, '<br>'.join(checks)))
print('| seeded change | breaks | needs, in order to manifest | confirmed (suite passes, demo fails with / passes without) | quick tier of the checks |')
print('|---|---|---|---|---|')
print('\n'.join(rows))
