#!/venv/bin/python
"""tools/reach_report.py [evidence dir]: merges coverage.miros_lines_executed of every evidence
file and prints, per miros file, the lines inside functions that no check's runs executed
(with their source text), so that gaps in what the simulated worlds exercise are visible."""
import glob
import json
import os
import sys

VERIF = os.path.dirname(os.path.dirname(os.path.abspath(__file__)))
REPO = os.environ.get('MIROS_REPO', '/repo')
evdir = sys.argv[1] if len(sys.argv) > 1 else os.path.join(VERIF, 'evidence')


def expand(s):
  out = set()
  for part in s.split(','):
    if not part:
      continue
    if '-' in part:
      a, b = part.split('-')
      out.update(range(int(a), int(b) + 1))
    else:
      out.add(int(part))
  return out


hit, total, by_check = {}, {}, {}
for f in sorted(glob.glob(os.path.join(evdir, 'C*.json'))):
  d = json.load(open(f))['coverage'].get('miros_lines_executed')
  if not d:
    continue
  for fn, v in d.items():
    if fn == 'measure':
      continue
    hit.setdefault(fn, set()).update(expand(v['executed_lines']))
    total[fn] = max(total.get(fn, 0), v['lines_in_functions'])
    by_check.setdefault(fn, {})[os.path.basename(f)[:-5]] = v['executed']

# universe: recompute from the source with the same rule as the kernel (lines of function code objects)
import importlib.util


def universe(path):
  src = open(path).read()
  code = compile(src, path, 'exec')
  lines = {}
  stack = [(code, None)]
  while stack:
    c, _ = stack.pop()
    for k in c.co_consts:
      if hasattr(k, 'co_code'):
        stack.append((k, c))
    if c.co_name == '<module>':
      continue
    if not (c.co_flags & 0x1):   # class bodies (not CO_OPTIMIZED) run at import time
      continue
    for _s, _e, ln in c.co_lines():
      if ln is not None and ln != c.co_firstlineno:
        lines.setdefault(ln, c.co_qualname)
  return lines, src.splitlines()


for fn in sorted(total):
  path = os.path.join(REPO, 'miros', fn)
  uni, src = universe(path)
  missing = sorted(ln for ln in uni if ln not in hit[fn])
  print('== %s: %d of %d function lines executed by some check; per check: %s' % (
    fn, len(hit[fn]), total[fn], ' '.join('%s=%d' % kv for kv in sorted(by_check[fn].items()))))
  cur = None
  for ln in missing:
    q = uni[ln]
    if q != cur:
      print('  -- %s' % q)
      cur = q
    print('   %5d  %s' % (ln, src[ln - 1].rstrip()[:110]))
