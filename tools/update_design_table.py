#!/venv/bin/python
"""replaces the seeded-changes table of DESIGN.md section 14 (between the SEEDED-TABLE markers, or the
TABLE-PLACEHOLDER line) by the output of tools/seeded_table.py"""
import os
import re
import subprocess

VERIF = os.path.dirname(os.path.dirname(os.path.abspath(__file__)))
table = subprocess.run([os.path.join(VERIF, 'tools', 'seeded_table.py')], stdout=subprocess.PIPE, text=True, check=True).stdout
block = '<!-- SEEDED-TABLE-BEGIN -->\n' + table.rstrip('\n') + '\n<!-- SEEDED-TABLE-END -->'
p = os.path.join(VERIF, 'DESIGN.md')
s = open(p).read()
if 'TABLE-PLACEHOLDER' in s:
  s = s.replace('TABLE-PLACEHOLDER', block)
else:
  s = re.sub(r'<!-- SEEDED-TABLE-BEGIN -->.*?<!-- SEEDED-TABLE-END -->', lambda m: block, s, flags=re.S)
open(p, 'w').write(s)
print('table rows: %d' % (len(table.strip().splitlines()) - 2))
