#!/bin/sh
# tools/vet_mutant.sh <agent out dir> <Cxx> [more checks...]  : confirm a seeded change independently and run the checks on it
src="$1"; id="$2"; shift 2
checks="${*:-$id}"
wt="/tmp/mutv/$id"
rm -rf "$wt"; git -C /repo worktree prune; git -C /repo worktree add -q --detach "$wt" HEAD || exit 3
if ! git -C "$wt" apply "$src/$id/patch.diff"; then echo "PATCH DOES NOT APPLY"; exit 3; fi
echo "--- patch: $(git -C "$wt" diff --stat | tail -1)"
base=/tmp/mutv/base
if [ ! -d "$base/miros" ]; then mkdir -p "$base"; git -C /repo archive HEAD | tar -x -C "$base"; fi
( cd "$wt" && PYTHONPATH="$wt" timeout 600 /venv/bin/python "$src/$id/demo.py" > /tmp/mutv/$id.demo_changed.log 2>&1; echo "demo on changed tree: rc=$? $(tail -1 /tmp/mutv/$id.demo_changed.log | cut -c1-150)" )
( cd "$base" && PYTHONPATH="$base" timeout 600 /venv/bin/python "$src/$id/demo.py" > /tmp/mutv/$id.demo_base.log 2>&1; echo "demo on unchanged tree: rc=$? $(tail -1 /tmp/mutv/$id.demo_base.log | cut -c1-100)" )
( cd "$wt" && PYTHONPATH="$wt" timeout 1500 /venv/bin/python -m pytest -q -p no:cacheprovider --timeout=900 --deselect test/crypto_test.py::test_cryptography > /tmp/mutv/$id.suite.log 2>&1; echo "suite on changed tree: rc=$? $(tail -1 /tmp/mutv/$id.suite.log)" )
"$(dirname "$0")/try_mutant.sh" "$wt" $checks
