#!/bin/sh
# tools/silence.sh "<seed list>" <Cxx> [...] : quick tier under other base seeds; evidence/replays go to scratch
seeds="$1"; shift
cd "$(dirname "$0")/.."
mkdir -p /tmp/scratch/silence_ev /tmp/scratch/silence_rp
for id in "$@"; do
  for sd in $seeds; do
    out=$(VERIF_SEED=$sd VERIF_EVIDENCE_DIR=/tmp/scratch/silence_ev VERIF_REPLAY_DIR=/tmp/scratch/silence_rp timeout 1800 ./verif check "$id" --tier "${TIER:-quick}" 2>&1)
    rc=$?
    echo "$id seed=$sd rc=$rc $(echo "$out" | grep -E 'quick:|thorough:' | cut -c1-150)"
    if [ $rc -ne 0 ]; then echo "$out" | grep -E -A3 "VIOLATION|HARNESS" | head -12; fi
  done
done
