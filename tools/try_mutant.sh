#!/bin/sh
# tools/try_mutant.sh <worktree-with-mutant> <Cxx> [<Cyy> ...]
# runs the quick checks against a scratch tree (MIROS_REPO) without touching /verif/evidence or /verif/replays
wt="$1"; shift
out="/tmp/scratch/mut_out/$(basename "$(dirname "$wt")")_$(basename "$wt")"
mkdir -p "$out/evidence" "$out/replays"
cd "$(dirname "$0")/.."
for id in "$@"; do
  res=$(MIROS_REPO="$wt" VERIF_EVIDENCE_DIR="$out/evidence" VERIF_REPLAY_DIR="$out/replays" timeout 1200 ./verif check "$id" --tier quick 2>&1)
  rc=$?
  echo "== $id on $wt: rc=$rc"
  echo "$res" | grep -E "VIOLATION|rule=|HARNESS|quick:" | head -8
done
