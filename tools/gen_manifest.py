#!/venv/bin/python
"""(re)generates /verif/MANIFEST.json from the check modules present in checks/."""
import glob
import importlib
import json
import os
import sys

VERIF = os.path.dirname(os.path.dirname(os.path.abspath(__file__)))
sys.path.insert(0, VERIF)

NA_REASONS = {
  'C26': 'not applicable to deterministic simulation: Event.dumps/loads is a pure function of (payload, name, registry); '
         'nothing in it blocks, times out, shares state across threads or meets a fault, so there is no schedule, '
         'clock, fault or interleaving for the simulator to decide (DESIGN.md section 5, C26)',
  'C32': 'not applicable to deterministic simulation: stripped() is a pure string function; its quantified input '
         'space (timestamps, blank lines, whitespace) is not reachable through any schedule, clock or fault of the '
         'simulated system (DESIGN.md section 5, C32)',
}
PENDING = 'not claimed yet: the check for this property has not been built in /verif at this commit (work in progress, see DESIGN.md section 10)'


def main():
  props = [json.loads(l) for l in open(os.path.join(VERIF, 'properties.jsonl'))]
  ids = [p['id'] for p in props]
  checks = []
  claimed = set()
  for p in sorted(glob.glob(os.path.join(VERIF, 'checks', 'c[0-9][0-9].py'))):
    pid = os.path.basename(p)[:-3].upper()
    m = importlib.import_module('checks.' + pid.lower())
    if getattr(m, 'DISABLED', False):
      continue
    claimed.add(pid)
    checks.append({
      'property_id': pid,
      'quick_cmd': 'timeout 900 ./verif check %s --tier quick' % pid,
      'thorough_cmd': 'timeout 3600 ./verif check %s --tier thorough' % pid,
      'evidence_file': 'evidence/%s.json' % pid,
      'replay_cmd_template': './verif replay {path}',
      'engine': 'miros-dst',
      'level_claimed': {
        'category': 'exploration',
        'text': getattr(m, 'LEVEL_TEXT', m.RULE),
        'design_ref': getattr(m, 'DESIGN_REF', 'DESIGN.md section 5, ' + pid),
      },
      'level_note': getattr(m, 'LEVEL_NOTE', 'Trusted base: the simulation kernel and stubs in /verif/sim (baton scheduler, simulated '
                            'Thread/Event/RLock/Queue/PriorityQueue/time/datetime/uuid), the reference model used as oracle, and the '
                            'GIL atomicity model (one bytecode / one C-level container call is atomic). Sampling, not exhaustive.'),
      'technique': getattr(m, 'TECHNIQUE', 'deterministic simulation: seeded search over schedules/faults/histories of the real miros code under a baton scheduler with a reference-model oracle'),
    })
  na = []
  for i in ids:
    if i in claimed:
      continue
    na.append({'property_id': i, 'reason': NA_REASONS.get(i, PENDING)})
  man = {
    'version': 1,
    'setup_cmd': '/venv/bin/python -c "import sys; assert sys.version_info >= (3, 12)" && timeout 600 ./verif selftest --quick',
    'hooks': {
      'guard': 'MIROS_VERIF_SIM',
      'enable': 'no source hooks: the simulator replaces the stdlib objects miros binds at module level (Thread, Queue, PriorityQueue, Event, RLock, deque, time, uuid, datetime, print) through those existing names at import time of /repo/miros, inside the check process only',
      'baseline_off_cmd': 'cd /repo && /venv/bin/python -m pytest -ra -q -p no:cacheprovider --timeout=900 --continue-on-collection-errors',
      'source_commits': [],
      'add_only': True,
    },
    'engines': [{
      'name': 'miros-dst',
      'path': 'sim/',
      'serves_properties': sorted(claimed),
      'kind_free_text': 'deterministic simulator for the real miros code: baton-passing real threads pre-empted through sys.monitoring LINE/INSTRUCTION events, virtual time, seeded scheduling policies (sticky walk, PCT, starvation, round robin), fault injection (stalls, timer jitter, queue overflow, clock misbehaviour, stop/cancel at arbitrary instants), reference models as oracles, delta-debugging minimiser and explicit-decision replay files',
    }],
    'checks': checks,
    'not_applicable': na,
    'notes': 'All checks: ./verif check <id> --tier quick|thorough (honours VERIF_SEED, VERIF_TIER, VERIF_JOBS, VERIF_BUDGET_S). '
             'Exit 0 = held on everything explored (KNOWN-FINDING lines for listed findings), 1 = VIOLATION with replay file, 2 = harness error. '
             'Genuine defects found are listed in known_findings.json (fixed: entries name the fix: commit in /repo).',
  }
  with open(os.path.join(VERIF, 'MANIFEST.json'), 'w') as fh:
    json.dump(man, fh, indent=1)
  print('MANIFEST.json: %d checks, %d not_applicable' % (len(checks), len(na)))


if __name__ == '__main__':
  main()
