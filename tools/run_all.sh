#!/bin/sh
# run every registered check once (tier $1, default quick); prints one line per check
tier="${1:-quick}"
cd "$(dirname "$0")/.."
for f in checks/c[0-9][0-9].py; do
  id=$(basename "$f" .py | tr a-z A-Z)
  start=$(date +%s)
  out=$(timeout 3600 ./verif check "$id" --tier "$tier" 2>&1)
  rc=$?
  end=$(date +%s)
  echo "$id rc=$rc $((end-start))s $(echo "$out" | tail -1)"
  if [ $rc -ne 0 ]; then echo "$out" | grep -E "VIOLATION|HARNESS|KNOWN" | head -5; fi
done
