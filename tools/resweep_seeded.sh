#!/bin/sh
# tools/resweep_seeded.sh [name ...]: applies every seeded change (default: all of seeded/*) to a scratch worktree of /repo's HEAD
# and runs the quick tier of the check of the property it breaks against it (stopping at the first violation, no minimisation);
# prints one line per change.  Evidence and replay files go to scratch.  A regression test of the checks themselves.
cd "$(dirname "$0")/.."
names="$*"; [ -z "$names" ] && names=$(ls seeded)
mkdir -p /tmp/scratch/resweep/ev /tmp/scratch/resweep/rp
for n in $names; do
  id=$(echo $n | cut -c1-3)
  wt=/tmp/scratch/resweep/wt
  rm -rf $wt; git -C /repo worktree prune
  git -C /repo worktree add -q --detach $wt HEAD || { echo "$n: worktree failed"; continue; }
  if ! git -C $wt apply /verif/seeded/$n/patch.diff 2>/dev/null; then echo "$n: PATCH DOES NOT APPLY"; git -C /repo worktree remove --force $wt; continue; fi
  out=$(MIROS_REPO=$wt VERIF_STOP_ON_VIOLATION=1 VERIF_NO_MINIMISE=1 VERIF_EVIDENCE_DIR=/tmp/scratch/resweep/ev VERIF_REPLAY_DIR=/tmp/scratch/resweep/rp timeout 1200 ./verif check $id --tier quick 2>&1)
  rc=$?
  echo "$n: rc=$rc $(echo "$out" | grep -E 'rule=' | head -2 | tr -s ' ' | cut -c1-120 | tr '\n' ';') $(echo "$out" | grep -E 'quick:' | grep -o 'runs=[0-9]* ok=[0-9]*')"
  git -C /repo worktree remove --force $wt
done
