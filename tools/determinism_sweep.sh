#!/bin/sh
# tools/determinism_sweep.sh <Cxx> [...]: the whole quick tier of a check twice - 16 workers with
# PYTHONHASHSEED=0 and 5 workers with another hash seed - and a diff of the per-run event-log
# digests (every run is a function of (base seed, property, stratum, index) and nothing else).
cd "$(dirname "$0")/.."
d=/tmp/scratch/detsweep; mkdir -p $d/ev $d/rp
for id in "$@"; do
  VERIF_DIGEST_LOG=$d/$id.a VERIF_EVIDENCE_DIR=$d/ev VERIF_REPLAY_DIR=$d/rp VERIF_BUDGET_S=3000 timeout 3600 ./verif check "$id" --tier quick >/dev/null 2>&1
  VERIF_DIGEST_LOG=$d/$id.b VERIF_HASHSEED=4242 VERIF_JOBS=5 VERIF_EVIDENCE_DIR=$d/ev VERIF_REPLAY_DIR=$d/rp VERIF_BUDGET_S=3000 timeout 3600 ./verif check "$id" --tier quick >/dev/null 2>&1
  n=$(wc -l < $d/$id.a)
  if cmp -s $d/$id.a $d/$id.b; then echo "$id: $n runs, digests identical (16 workers/hashseed 0 vs 5 workers/hashseed 4242)";
  else echo "$id: DIFFER ($(diff $d/$id.a $d/$id.b | grep -c '^<') of $n runs)"; diff $d/$id.a $d/$id.b | head -6; fi
done
