"""debug helper: tools/dbg.py C01 general 0 50  -> run indices, print outcome per run"""
import sys, os, json, time
sys.path.insert(0, os.path.dirname(os.path.dirname(os.path.abspath(__file__))))
from sim import runner
pid, stratum, a, b = sys.argv[1], sys.argv[2], int(sys.argv[3]), int(sys.argv[4])
want = sys.argv[5] if len(sys.argv) > 5 else None
check = runner._load_check(pid)
for i in range(a, b):
  seed = runner.run_seed(runner.DEFAULT_SEED, pid, stratum, i)
  sc = check.generate(seed, stratum, 'quick')
  t = time.time()
  r = runner.execute_one(check, sc, {'mode': 'seeded', 'seed': seed})
  dt = time.time() - t
  if want and r.outcome != want:
    continue
  print(i, r.outcome, r.reason[:2000], 'steps', r.steps, 'sw', r.switches, '%.3fs' % dt, {k: sc[k] for k in sc if k not in ('spec', 'ops', 'sched')})
  for v in r.violations:
    print('   ', v.rule, v.sig, v.detail[:1500])
  if want and os.environ.get('DUMP'):
    print(json.dumps(sc))
    break
