"""C19 - the spy log records exactly the state invocations the processor made."""
import random

from checks import chart_common as cc
from models import chart_oracles as co

PID = 'C19'
SCHEDULE_DEPENDENT = False
RULE = ('seeded spied charts (hand-written handlers under @spy_on, whose undecorated bodies record every invocation with '
        'its signal) on instrumented, queued and active-object hosts, histories of events, external posts, defers/recalls and '
        'handler-made posts/defers/recalls/scribbles, ring sizes from {40, 500}; oracle: after every step spy_rtc() equals '
        'one "SIG:state" line per invocation the processor made (search, entry, exit, init, guard fallback, the event), '
        '"SIG:state:HOOK" exactly for states that handled the event internally, the markers of the side effects executed in '
        'the step in execution order, START first for start_at and the queue reflection last; spy() equals the concatenation '
        'of the step logs truncated to the ring size. Non-trivial = a step with >= 6 spy lines; distinct = distinct '
        '(host, number of lines bucket, kinds of markers present) tuples.')
ASSUMPTIONS = ['no schedule dimension', 'the expected lines are computed from what the processor did (handler-side invocation log), not from a model of its search order']
PROBES = []
PLAN = {
  'quick': {'strata': {'spy': 5000}, 'wall_s': 300, 'chunk': 100, 'min_conclusive': 1000},
  'thorough': {'strata': {'spy': 120000}, 'wall_s': 900, 'chunk': 250, 'min_conclusive': 1000},
}
ORACLES = [co.check_spy]


def generate(seed, stratum, tier):
  rng = random.Random(seed)
  host = rng.choice(['instrumented', 'queued', 'queued', 'ao'])
  # p_swallow: states that answer a signal with IGNORED themselves (masking it from their ancestors)
  kw = {'nstates': rng.randrange(2, 10), 'p_swallow': rng.choice([0.0, 0.0, 0.15, 0.3])}
  ops, weights = ('ev',), None
  if host != 'instrumented':
    kw.update({'fx_rate': rng.choice([0.0, 0.3]), 'fx_ops': ('post_fifo', 'post_lifo', 'defer', 'recall', 'scribble') + (('clear_spy',) if rng.random() < 0.3 else ())})
  if host == 'queued':
    ops, weights = ('ev', 'post_fifo', 'post_lifo', 'rtc', 'circuit', 'defer', 'recall', 'read'), (5, 2, 2, 4, 1, 1, 1, 1)
  if host != 'instrumented' and rng.random() < 0.3:
    ops, weights = tuple(ops) + ('clear_spy', 'clear_trace'), tuple(weights or (1,)) + (0.7, 0.3)
  sc = cc.gen_chart_scenario(rng, combos=[(host, 'closure-spied')], spec_kw=kw, ops=ops, weights=weights, nops=(4, 30), flags=False)
  if rng.random() < 0.3:
    sc['rings'] = {'spy': 40}
  if host == 'ao' and rng.random() < 0.5:
    # the last event makes the object stop itself from a handler (supported: stop() from inside the object's thread):
    # the step's log must still hold everything the step did
    spec = sc['spec']
    spec['signals'] = list(spec['signals']) + ['SZ']
    for st in spec['states']:
      if st['parent'] is None or rng.random() < 0.3:
        st['react']['SZ'] = {'kind': 'hook', 'fx': [{'op': 'stop', 'id': 900 + len(st['name']), 'max': 1}]}
      elif rng.random() < 0.3:
        st['react']['SZ'] = {'kind': 'decline'}
    sc['ops'] = [o for o in sc['ops'] if o[0] not in ('clear_spy', 'clear_trace')] + [['ev', 'SZ']]
  return sc


shrink_candidates = cc.shrink_chart


def collect(run, res):
  res.nontrivial[:] = []
  for ob in run.steps:
    if ob.spy_rtc and len(ob.spy_rtc) >= 6:
      kinds = tuple(sorted(set(l.split(':')[0] for l in ob.spy_rtc if l.split(':')[0] in ('POST_FIFO', 'POST_LIFO', 'POST_DEFERRED', 'RECALL', 'START')) |
                           set(['HOOK'] if any(l.endswith(':HOOK') for l in ob.spy_rtc) else [])))
      res.nontrivial.append(hash((run.host, len(ob.spy_rtc) // 5, kinds)))


def execute(sc, sched):
  return cc.run_and_judge(sc, sched, ORACLES, collect=collect)
