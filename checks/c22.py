"""C22 - is_in and child_state answer from the active state path and change nothing."""
import random

from checks import chart_common as cc
from models import chart_oracles as co
from worlds import chartgen

PID = 'C22'
SCHEDULE_DEPENDENT = False
RULE = ('seeded charts and histories in which is_in(X)/child_state(P) queries (X, P ranging over every state and top) '
        'are issued between steps; oracle: is_in(X) <=> X is the current state or encloses it; child_state(P) = child '
        'of P on the active path (the current state itself when P is current) and the call fails when P does not '
        'enclose the current state; non-interference: the same history is run a second time without the queries and '
        'the handler-side action logs and resting states of all steps must be identical. Non-trivial = a query made in '
        'a state of depth >= 2; distinct = distinct (query kind, depth of current state, relation of the argument to the '
        'active path) tuples.')
ASSUMPTIONS = ['no schedule dimension', 'queries are issued between steps only (the statement says so)']
PROBES = []
PLAN = {
  'quick': {'strata': {'queries': 5000}, 'wall_s': 300, 'chunk': 100, 'min_conclusive': 1000},
  'thorough': {'strata': {'queries': 120000}, 'wall_s': 900, 'chunk': 250, 'min_conclusive': 1000},
}


def generate(seed, stratum, tier):
  rng = random.Random(seed)
  sc = cc.gen_chart_scenario(rng, ops=('ev', 'is_in', 'child'), weights=(3, 2, 2), nops=(6, 36))
  if rng.random() < 0.25:
    # the chart is started again somewhere else later on: the queries answer from the path that is active then
    names = [st['name'] for st in sc['spec']['states']]
    pos = rng.randrange(1, len(sc['ops']) + 1)
    sc['ops'][pos:pos] = [['restart', rng.choice(names)], [rng.choice(['is_in', 'child']), rng.choice(names + ['top'])]]
  return sc


shrink_candidates = cc.shrink_chart


def _relation(sp, cur, x):
  if x == 'top':
    return 'top'
  if x == cur:
    return 'self'
  if sp.is_ancestor(x, cur):
    return 'ancestor'
  if sp.is_ancestor(cur, x):
    return 'descendant'
  return 'unrelated'


def collect(run, res):
  res.nontrivial[:] = []
  for i, ob in enumerate(run.steps):
    if ob.op[0] in ('is_in', 'child'):
      cur = run.ref_state_at(i)
      if cur in run.spec.states and run.spec.depth(cur) >= 2:
        res.nontrivial.append(hash((ob.op[0], run.spec.depth(cur), _relation(run.spec, cur, ob.op[1]))))


def execute(sc, sched):
  res = cc.run_and_judge(sc, sched, [co.check_queries], collect=collect, keep_run=True)
  if res.outcome != 'ok':
    res.run = None
    return res
  run1 = res.run
  res.run = None
  # second execution of the same history without the queries
  sc2 = dict(sc, ops=[o for o in sc['ops'] if o[0] not in ('is_in', 'child')])
  res2 = cc.run_and_judge(sc2, sched, [], keep_run=True)
  run2 = res2.run
  res2.run = None
  res.steps += res2.steps
  if res2.outcome != 'ok':
    if res2.outcome == 'violation':
      res.outcome = 'inconclusive'
      res.reason = 'baseline run without queries failed: ' + res2.violations[0].rule
    else:
      res.outcome, res.reason = res2.outcome, res2.reason
    return res
  a = [(tuple(ob.op), tuple(co.obs_actions(ob.recs)), ob.state) for ob in run1.steps if ob.op[0] not in ('is_in', 'child')]
  b = [(tuple(ob.op), tuple(co.obs_actions(ob.recs)), ob.state) for ob in run2.steps]
  if a != b:
    k = 0
    while k < min(len(a), len(b)) and a[k] == b[k]:
      k += 1
    # which query preceded the first difference?
    res.violate('query-changed-behaviour', {},
                'the history behaves differently with and without the queries; first difference at step %d:\n with queries:    %s\n without queries: %s' % (
                  k, a[k] if k < len(a) else None, b[k] if k < len(b) else None))
  return res
