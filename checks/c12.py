"""C12 - stop() ends the active object's thread and its timed sources."""
import random

from sim import kernel, seams
from sim.runner import RunResult
from worlds import common, ao as aw
from checks import ao_common as ac

PID = 'C12'
SCHEDULE_DEPENDENT = True
RULE = ('two real ActiveObjects, the real fabric; the first has 0-3 timed sources (some armed by its own handlers during a step) and 0-3 concurrent posters; stop() is '
        'called on it from a client at an arbitrary instant (idle object, mid-step, queue non-empty, the very instant a timer '
        'wakes: the scheduler decides, down to single bytecodes of stop, run_event and the timer\'s run-flag check) or from one '
        'of its own handlers (third stratum: the handler\'s step goes on to arm a source, or a client arms one on the ended object, and a client calls stop() later: that call must silence them; fourth stratum: the stop() comes from a handler of another active object - in half of the runs one with the same name - while the stopped object is in the middle of a slow step that may go on to arm a source); afterwards the client posts a probe event to the second object and publishes a probe it '
        'subscribed to. Oracle: stop() returns (deadlock detection); after an external stop() returned the object\'s thread has '
        'ended, no further step of that object runs, none of its timer threads puts anything into its queue; the second '
        'object still dispatches the probe and the fabric still delivers the probe publication; after stop() inside a handler '
        'the thread ends without taking another step. Non-trivial = stop issued while the object was mid-step, had pending '
        'events, or at a timer\'s wake instant; distinct = distinct (where stop came from, object state at stop, sources alive) '
        'tuples.')
ASSUMPTIONS = ['virtual time; horizon 3-6 periods after the stop']
PROBES = ['stop_with_pending_or_midstep', 'stop_at_timer_wake_instant', 'stop_from_handler', 'external_stop_after_handler_stop', 'stop_from_another_objects_handler']
PLAN = {
  'quick': {'strata': {'external': 2500, 'from-handler': 1000, 'handler-then-external': 600, 'from-other-object': 600}, 'wall_s': 300, 'chunk': 50, 'min_conclusive': 800},
  'thorough': {'strata': {'external': 70000, 'from-handler': 30000, 'handler-then-external': 20000, 'from-other-object': 20000}, 'wall_s': 900, 'chunk': 100, 'min_conclusive': 800},
}


def generate_other(rng):
  # the stop comes from a handler of another active object (its thread is "another thread" for the stopped one), while
  # the stopped object is in the middle of a slow step that may go on to arm a source; in half of the runs the two
  # objects carry the same name
  objs = aw.default_objects(2)
  if rng.random() < 0.5:
    objs[1]['name'] = objs[0]['name']
  p = rng.choice([0.1, 0.25, 1.0])
  slow = [{'op': 'sleep', 'd': p * rng.choice([0.5, 1, 3]), 'id': 30, 'max': 2}]
  if rng.random() < 0.6:
    slow.append({'op': 'timed', 'sig': 'TH', 'period': p * rng.choice([1, 2]), 'times': rng.choice([0, 0, 6]), 'deferred': rng.choice([True, False]),
                 'kind': rng.choice(['fifo', 'lifo']), 'id': 31, 'max': 1})
  objs[0]['react'] = {'SA': slow}
  objs[1]['react'] = {'SC': [{'op': 'stop_other', 'target': 0, 'id': 32, 'max': 1}]}
  c0 = [['start', 0], ['start', 1], ['await_idle']]
  for slot in range(rng.randrange(0, 3)):
    c0.append(['timed', 0, rng.choice(['fifo', 'lifo']), rng.choice(['TA', 'TB']), p, rng.choice([0, 0, 2]), rng.choice([True, False]), slot])
  c0.append(['post_fifo', 0, 'SA'])
  if rng.random() < 0.5:
    c0.append(['post_fifo', 0, 'SB'])
  c0.append(['sleep', p * rng.choice([0.1, 0.25, 0.6])])     # the slow step is in progress (or about to begin)
  c0.append(['post_fifo', 1, 'SC'])
  c0.append(['sleep', p * rng.choice([4, 6])])
  c0 += [['post_fifo', 1, 'SB'], ['sleep', p]]
  total = sum(o[1] for o in c0 if o[0] == 'sleep')
  return {'objects': objs, 'queue_size': 500, 'clients': [c0], 'stratum': 'from-other-object', 'horizon_s': total + p * rng.randrange(3, 7),
          'sched': common.draw_sched(rng, grans=('sync', 'line', 'opcode'), weights=(1, 2, 2), expected_steps=2500, victims=['consumer'])}


def generate(seed, stratum, tier):
  rng = random.Random(seed)
  if stratum == 'from-other-object':
    return generate_other(rng)
  objs = aw.default_objects(2)
  p = rng.choice([0.1, 0.25, 1.0])
  c0 = [['start', 0], ['start', 1], ['subscribe', 1, 'SD', 'fifo'], ['await_idle']]
  nsrc = rng.randrange(0, 4)
  for slot in range(nsrc):
    # names are shared between sources on purpose; some sources are finite and finish on their own before the stop
    c0.append(['timed', 0, rng.choice(['fifo', 'lifo']), rng.choice(['TA', 'TA', 'TB']), p * rng.choice([1, 1, 2]), rng.choice([0, 0, 1, 2, 5]), rng.choice([True, False]), slot])
  for _ in range(rng.randrange(0, 4)):
    c0.append([rng.choice(['post_fifo', 'post_lifo']), 0, rng.choice(['SA', 'SB'])])
  if rng.random() < 0.35:
    # the object arms a heartbeat from a handler: a step that is in progress when stop() is
    # called may still create a source
    objs[0]['react'] = {'SA': [{'op': 'timed', 'sig': 'TH', 'period': p * rng.choice([1, 2]), 'times': 0,
                                'deferred': rng.choice([True, False]), 'kind': rng.choice(['fifo', 'lifo']), 'id': 5, 'max': 2}]}
    c0.append(['post_fifo', 0, 'SA'])
  clients = [c0]
  if stratum == 'external':
    c0.append(['sleep', p * rng.choice([1, 2, 3])] if rng.random() < 0.6 else ['sleep', p * rng.choice([0.5, 1.5])] if rng.random() < 0.7 else ['post_fifo', 0, 'SA'])
    c0.append(['stop', 0])
  else:
    objs[0].setdefault('react', {})
    objs[0]['react']['SC'] = [{'op': 'stop', 'id': 9, 'max': 1}]
    if stratum == 'handler-then-external':
      # the step that called stop() goes on and arms a source (say the entry action of the state it moves to);
      # the object's thread is gone when, later, another thread calls stop(): that call must still silence the source
      if rng.random() < 0.8:
        objs[0]['react']['SC'].append({'op': 'timed', 'sig': 'TH2', 'period': p * rng.choice([1, 2]), 'times': rng.choice([0, 0, 8]),
                                       'deferred': rng.choice([True, False]), 'kind': rng.choice(['fifo', 'lifo']), 'id': 10, 'max': 1})
    c0.append(['post_fifo', 0, 'SC'])
    for _ in range(rng.randrange(0, 3)):
      c0.append(['post_fifo', 0, 'SA'])
    c0.append(['sleep', p * 2])
    if stratum == 'handler-then-external':
      if rng.random() < 0.5:
        c0.append(['timed', 0, rng.choice(['fifo', 'lifo']), 'TB', p, 0, rng.choice([True, False]), 7])   # armed from outside on the dead object
        c0.append(['sleep', p * rng.choice([0.5, 1, 2])])
      c0.append(['stop', 0])
  # the rest of the system must keep working
  c0 += [['post_fifo', 1, 'SB'], ['publish', 1, 'SD', None], ['sleep', p]]
  if rng.random() < 0.5:
    clients.append([['sleep', 0.001]] + [[rng.choice(['post_fifo', 'post_lifo']), 0, 'SB'] for _ in range(rng.randrange(1, 4))])
  if stratum == 'external' and rng.random() < 0.3:
    # another thread arms sources on the same object while the first client does: stop() must silence those as well
    c0.insert(4, ['barrier', 2])
    clients.append([['sleep', 0.001], ['barrier', 2]] + [['timed', 0, rng.choice(['fifo', 'lifo']), rng.choice(['TA', 'TC']), p, 0, rng.choice([True, False]), 20 + k]
                                                          for k in range(rng.randrange(1, 3))])
  total = sum(o[1] for c in clients for o in c if o[0] == 'sleep')
  return {'objects': objs, 'queue_size': 500, 'clients': clients, 'stratum': stratum, 'horizon_s': total + p * rng.randrange(3, 7),
          'sched': common.draw_sched(rng, grans=('sync', 'line', 'opcode'), weights=(1, 2, 3), expected_steps=2500,
                                     victims=['consumer'])}


def shrink_candidates(sc):
  cl = sc['clients']
  if len(cl) > 1:
    yield dict(sc, clients=cl[:1])
  s = cl[0]
  for j in range(len(s) - 1, -1, -1):
    if s[j][0] in ('start', 'stop', 'subscribe', 'await_idle') or (s[j][0] == 'post_fifo' and s[j][2] == 'SC'):
      continue
    yield dict(sc, clients=[s[:j] + s[j + 1:]] + cl[1:])
  if sc['sched'].get('gran') == 'opcode':
    yield dict(sc, sched=dict(sc['sched'], gran='line'))


def execute(sc, sched):
  res = RunResult()
  run, sim, reason = aw.run_ao(sc, sched, max_steps=400000, horizon_s=sc['horizon_s'])
  try:
    ok = ac.base_judge(run, sim, reason, res)
    if ok and reason not in ('quiescent', 'horizon'):
      res.outcome, res.reason = 'inconclusive', reason
      ok = False
    if ok:
      judge(sc, run, sim, res)
    if res.outcome == 'violation' or sched.get('seed', 0) % 499 == 0:
      res.sample = {'clients': sc['clients'], 'stops': [{k: str(s[k]) for k in s} for s in run.stops],
                    'dispatch_ao1': [(d[0], d[2], d[3]) for d in run.dispatch if d[1] == 0][:16],
                    'timer_appends': {k: [(a[0], a[3] / 1e6) for a in v][:8] for k, v in (ac.source_appends(run, 0).items() if run.objs else [])}}
  finally:
    common.finish(sim, res)
  return res


def judge(sc, run, sim, res):
  if not run.stops:
    res.outcome, res.reason = 'inconclusive', 'stop was never reached'
    return
  st = run.stops[0]
  if st['end'] is None:
    res.violate('stop-did-not-return', {'from': 'handler' if st['from'] == 'handler' else 'client'}, 'stop() began at seq %d and never returned; threads: %s' % (st['begin'], ac.where(sim)))
    return
  ctl = run.consumer_ctl(0)
  disp0 = [d for d in run.dispatch if d[1] == 0]
  t_of_seq = {rec[0]: sim.history_t[i] for i, rec in enumerate(sim.history)}
  if st['from'] == 'other-object':
    sim.probe('stop_from_another_objects_handler')
  if st['from'] != 'handler':
    sim_state = 'external'
    if ctl is not None and ctl.state != kernel.DONE:
      res.violate('thread-alive-after-stop', {}, 'stop() returned at seq %d but the object\'s thread is still alive (%s)' % (st['end'], ctl.desc))
      return
    if ctl is not None and ctl.ended_seq is not None and ctl.ended_seq > st['end']:
      res.violate('thread-alive-after-stop', {}, 'stop() returned at seq %d, the thread ended only at seq %d' % (st['end'], ctl.ended_seq))
      return
    late = [d for d in disp0 if d[0] > st['end']]
    if late:
      res.violate('step-after-stop', {}, 'stop() returned at seq %d but the object dispatched %s afterwards' % (st['end'], [(d[0], d[2], d[3]) for d in late[:4]]))
      return
  else:
    sim.probe('stop_from_handler')
    # the step in which the handler called stop is the last one
    stop_step = [d for d in disp0 if d[0] < st['begin']]
    after = [d for d in disp0 if d[0] > st['end']]
    if after:
      res.violate('step-after-stop', {'from': 'handler'}, 'a handler called stop() (seq %d-%d) but the object took further steps: %s' % (st['begin'], st['end'], [(d[0], d[2], d[3]) for d in after[:4]]))
      return
    if ctl is not None and ctl.state != kernel.DONE:
      res.violate('thread-alive-after-stop', {'from': 'handler'}, 'a handler called stop() but the object\'s thread is still alive at the end (%s)' % ctl.desc)
      return
  ref = st
  if sc.get('stratum') == 'handler-then-external':
    # sources may be armed after the handler's stop(); the stop() made later by another thread is the one that must silence them
    ext = [x for x in run.stops if x['from'] != 'handler']
    if not ext:
      res.outcome, res.reason = 'inconclusive', 'the external stop was never reached'
      return
    ref = ext[-1]
    if ref['end'] is None:
      res.violate('stop-did-not-return', {'from': 'client-after-handler'}, 'the second stop() (from a client, after the handler\'s) began at seq %d and never returned; threads: %s' % (ref['begin'], ac.where(sim)))
      return
    sim.probe('external_stop_after_handler_stop')
  st_end = ref['end']
  for tn, lst in sorted(ac.source_appends(run, 0).items()):
    src = [x for x in run.sources if x['uid'] == tn]
    if src and src[0]['client'] != 'handler' and (src[0]['end'] is None or src[0]['end'] > ref['begin']):
      continue      # armed by another thread while (or after) stop() ran: the statement is about the sources the object had started
    late = [a for a in lst if a[0] > st_end]
    if late:
      st = ref
      res.violate('post-after-stop', {'n': 'one' if len(late) == 1 else 'several', 'from': ('client-after-handler' if ref is not run.stops[0] else 'handler') if run.stops[0]['from'] == 'handler' else 'client'},
                  'stop() returned at seq %d (t=%.6fs) but the timed source posting %s still put %d event(s) into the queue: %s' % (
                    st['end'], t_of_seq.get(st['end'], 0) / 1e6, tn, len(late), [(a[0], a[3] / 1e6) for a in late[:4]]))
      return
  # the others keep running
  probe = [u for u, p in run.posts.items() if p['obj'] == 1 and p['end'] is not None]
  d1 = [d[3] for d in run.dispatch if d[1] == 1]
  for u in probe:
    if u not in d1:
      res.violate('other-object-stopped', {}, 'after stop() of ao1 the second object did not dispatch the probe %s' % u)
      return
  for u, p in run.pubs.items():
    if p['end'] is not None and p['sig'] == 'SD' and u not in d1:
      res.violate('fabric-stopped', {}, 'after stop() of ao1 the probe publication %s did not reach the second object' % u)
      return
  # reach
  ops = run.queue_ops(0)
  pending = 0
  qstate = ac.replay_queue(run, 0)
  b = st['begin']
  mid = any(d[0] < b for d in disp0) and False
  n_before = sum(1 for a in qstate['adds'] if a[0] < b) - sum(1 for p in qstate['pops'] if p[0] < b)
  tb = t_of_seq.get(b)
  at_wake = False
  from checks.c10 import calendar
  for s in run.sources:
    if tb is not None and tb in calendar(s, int(sc['horizon_s'] * 1e6)):
      at_wake = True
  if n_before > 0:
    sim.probe('stop_with_pending_or_midstep')
  if at_wake:
    sim.probe('stop_at_timer_wake_instant')
  if n_before > 0 or at_wake or st['from'] == 'handler':
    res.nontrivial.append(hash((st['from'] == 'handler', min(n_before, 4), at_wake, len(run.sources))))
