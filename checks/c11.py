"""C11 - cancelling a timed source stops exactly that source, for good."""
import random

from sim import kernel, seams
from sim.runner import RunResult
from worlds import common, ao as aw
from checks import ao_common as ac
from checks.c10 import calendar

PID = 'C11'
SCHEDULE_DEPENDENT = True
RULE = ('one real ActiveObject with 2-5 endless or long timed sources over overlapping and distinct signal names; a client '
        'cancels by id - the identical id object, or an equal id rebuilt from its text / integer value ("received over a '
        'network") - or by name - the same Event, a fresh Event of that signal, one rebuilt with Event.loads(Event.dumps(e)), a '
        'copied name string; the cancel instant is placed while the victim sleeps, exactly when it wakes (same virtual instant: '
        'the scheduler decides who goes first, down to single bytecodes of the timer\'s run-flag check and of cancel_event(s)), '
        'or after it finished; a second stratum fills the table of tracked sources to one below its capacity (2-4), lets two threads '
        'ask for one more source at the same time and then cancels one of the old ones. Oracle (timer calendar with cancellation): no source cancelled by a call posts after that call '
        'returned (global event sequence numbers); its entry is gone from the tracked list; every other source still posts on '
        'its calendar up to the horizon; cancelling an unknown id or name changes nothing. Non-trivial = a cancel issued at the '
        'same virtual instant at which the victim wakes; distinct = distinct (cancel form, victim state at cancel, number of '
        'sources) tuples.')
ASSUMPTIONS = ['virtual time; horizon 4-12 periods after the last client op']
PROBES = ['cancel_at_wake_instant', 'cancel_with_equal_not_identical_key']
PLAN = {
  'quick': {'strata': {'cancel': 3500, 'concurrent-create': 1200}, 'wall_s': 300, 'chunk': 50, 'min_conclusive': 800},
  'thorough': {'strata': {'cancel': 100000, 'concurrent-create': 30000}, 'wall_s': 900, 'chunk': 100, 'min_conclusive': 800},
}


def generate(seed, stratum, tier):
  rng = random.Random(seed)
  if stratum == 'concurrent-create':
    # the table of tracked sources is nearly full and two threads ask for one more at the same time;
    # afterwards the oldest source is cancelled
    cap = rng.randrange(2, 5)
    p = rng.choice([0.1, 0.25, 1.0])
    c0 = [['start', 0]]
    for slot in range(cap - 1):
      c0.append(['timed', 0, rng.choice(['fifo', 'lifo']), rng.choice(['TA', 'TB']), p, 0, True, slot])
    c0.append(['barrier', 3])
    c0.append(['sleep', p * rng.choice([0.5, 1.5, 2])])
    victim = rng.randrange(cap - 1)
    if rng.random() < 0.6:
      c0.append(['cancel_event', 0, 0, victim, rng.choice(['same', 'copy'])])
    else:
      c0.append(['cancel_events', 0, rng.choice(['TA', 'TB']), rng.choice(['same', 'fresh'])])
    others = [[['barrier', 3], ['timed', 0, rng.choice(['fifo', 'lifo']), 'TC', p, 0, rng.choice([True, False]), 10 + k]] for k in range(2)]
    return {'objects': aw.default_objects(1), 'queue_size': cap, 'clients': [c0] + others, 'stratum': stratum,
            'horizon_s': p * rng.randrange(6, 12),
            'sched': common.draw_sched(rng, grans=('line', 'opcode'), weights=(1, 2), expected_steps=1500, policies=('sticky', 'pct'))}
  objs = aw.default_objects(1)
  nsrc = rng.randrange(2, 6)
  p = rng.choice([0.1, 0.25, 1.0])
  c0 = [['start', 0]]
  names = ['TA', 'TB', 'TC']
  if rng.random() < 0.4:
    # names that contain one another (HEARTBEAT / HEARTBEAT_LOST): still different names
    names = rng.choice([['TA', 'TA_LOST', 'TB'], ['TICK', 'TICK2', 'TOCK'], ['TB_X', 'TB', 'XTB']])
  srcs = []
  for slot in range(nsrc):
    sig = rng.choice(names[:rng.randrange(1, 4)])
    times = rng.choice([0, 0, None, 8, 1, 2])      # some finish on their own before anything is cancelled
    c0.append(['timed', 0, rng.choice(['fifo', 'lifo']), sig, p * rng.choice([1, 1, 2]), times, rng.choice([True, True, False]), slot])
    srcs.append(sig)
  ncancel = rng.randrange(1, 4)
  for _ in range(ncancel):
    # sleep to a multiple of the period (the victim wakes at that very instant) or in between
    if rng.random() < 0.75:
      c0.append(['sleep', p * rng.choice([1, 2, 3]) if rng.random() < 0.6 else p * rng.choice([0.5, 1.5, 0.3])])
    # else: cancel right away - the new source's thread may not even have made its first pass yet
    if rng.random() < 0.5:
      c0.append(['cancel_event', 0, 0, rng.randrange(nsrc + 1), rng.choice(['same', 'same', 'copy', 'int'])])
    else:
      c0.append(['cancel_events', 0, rng.choice(names), rng.choice(['same', 'fresh', 'loads', 'strcopy'])])
  total = sum(o[1] for o in c0 if o[0] == 'sleep')
  sc = {'objects': objs, 'queue_size': 500, 'clients': [c0], 'horizon_s': total + p * rng.randrange(4, 13),
        'sched': common.draw_sched(rng, grans=('sync', 'line', 'opcode'), weights=(1, 2, 3), expected_steps=2500,
                                   policies=('sticky', 'pct'))}
  return sc


def shrink_candidates(sc):
  if len(sc['clients']) > 1:
    if sc['sched'].get('gran') == 'opcode':
      yield dict(sc, sched=dict(sc['sched'], gran='line'))
    return
  s = sc['clients'][0]
  for j in range(len(s) - 1, -1, -1):
    if s[j][0] in ('start',):
      continue
    yield dict(sc, clients=[s[:j] + s[j + 1:]])
  if sc['sched'].get('gran') == 'opcode':
    yield dict(sc, sched=dict(sc['sched'], gran='line'))


def execute(sc, sched):
  res = RunResult()
  run, sim, reason = aw.run_ao(sc, sched, max_steps=400000, horizon_s=sc['horizon_s'])
  try:
    ok = ac.base_judge(run, sim, reason, res)
    if ok and reason not in ('quiescent', 'horizon'):
      res.outcome, res.reason = 'inconclusive', reason
      ok = False
    if ok:
      judge(sc, run, sim, res)
    if res.outcome == 'violation' or sched.get('seed', 0) % 499 == 0:
      ta = ac.source_appends(run, 0) if run.objs else {}
      res.sample = {'client': sc['clients'][0], 'horizon_s': sc['horizon_s'],
                    'cancels': [{k: str(c[k]) for k in ('how', 'form', 'target', 'begin', 'end')} for c in run.cancels],
                    'appends': {k: [(a[0], a[3]) for a in v][:10] for k, v in ta.items()}}
  finally:
    common.finish(sim, res)
  return res


def judge(sc, run, sim, res):
  hor_us = int(sc['horizon_s'] * 1e6)
  appends = ac.source_appends(run, 0)
  o = run.objs[0]
  # which sources does each cancel call cover?  (sources created before the call began)
  cancelled_at = {}     # source index -> (end seq of the first covering cancel, cancel record)
  for c in run.cancels:
    if c['end'] is None:
      continue
    for si, s in enumerate(run.sources):
      if s['end'] is None or s['end'] > c['begin'] or s['rejected']:
        continue
      hit = (c['how'] == 'id' and s['id'] == c['target']) or (c['how'] == 'name' and s['sig'] == c['target'])
      if hit and si not in cancelled_at:
        cancelled_at[si] = (c['end'], c)
  t_of_seq = {}
  for idx, rec in enumerate(sim.history):
    t_of_seq[rec[0]] = sim.history_t[idx]
  for si, s in enumerate(run.sources):
    if s['rejected']:
      if sc.get('stratum') == 'concurrent-create' and s['exc'] == 'ActiveObjectOutOfPostedEventResources':
        continue      # more sources were asked for than can be tracked: a rejection is the documented answer
      res.violate('timed-post-raised', {'exc': s['exc']}, str(s))
      return
    got = appends.get(s['uid'], [])
    desc = 'source #%d %s/%s period=%s times=%s deferred=%s t0=%.3fs' % (si, s['kind'], s['sig'], s['period'], s['times'], s['deferred'], s['t0_us'] / 1e6)
    cal = calendar(s, hor_us)
    if si in cancelled_at:
      end_seq, c = cancelled_at[si]
      late = [g for g in got if g[0] > end_seq]
      t_cancel = t_of_seq.get(end_seq, None)
      if late:
        res.violate('post-after-cancel', {'how': c['how'], 'n': 'one' if len(late) == 1 else 'several',
                                          'key': 'identical' if c['form'] == 'same' else 'equal-copy'},
                    '%s was cancelled by cancel_%s(%s form=%s) which returned at seq %d (t=%.6fs) but it posted again at %s' % (
                      desc, 'event' if c['how'] == 'id' else 'events', c['target'], c['form'], end_seq, (t_cancel or 0) / 1e6,
                      [(g[0], g[3] / 1e6) for g in late[:4]]))
        return
      # still tracked?
      for pe in list(o.posted_events_queue.snapshot()):
        if pe.uuid == s['id']:
          res.violate('cancelled-source-still-tracked', {'how': c['how']}, '%s is still in the tracked-source list after %s' % (desc, c))
          return
      # before the cancel it had to keep its calendar
      before = [g[3] for g in got]
      if before != cal[:len(before)]:
        res.violate('timer-calendar', {'cancelled': True}, '%s: postings %s are not a prefix of its calendar %s' % (desc, [b / 1e6 for b in before[:10]], [c_ / 1e6 for c_ in cal[:10]]))
        return
    else:
      inst = [g[3] for g in got]
      if inst != cal:
        res.violate('other-source-disturbed', {'count': 'fewer' if len(inst) < len(cal) else 'more-or-shifted'},
                    '%s was not cancelled by any call but posted at %s instead of %s; cancels: %s' % (
                      desc, [i / 1e6 for i in inst[:12]], [c_ / 1e6 for c_ in cal[:12]], [(c['how'], str(c['target']), c['form']) for c in run.cancels]))
        return
  # reach
  for c in run.cancels:
    if c['form'] != 'same':
      sim.probe('cancel_with_equal_not_identical_key')
    tb = t_of_seq.get(c['begin'])
    for si, s in enumerate(run.sources):
      if tb is not None and tb in calendar(s, hor_us):
        sim.probe('cancel_at_wake_instant')
        res.nontrivial.append(hash((c['how'], kernel._stable(c['form']), len(run.sources), si in cancelled_at)))
        break
