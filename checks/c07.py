"""C07 - active-object publish/subscribe works in every configuration."""
import random

from sim import kernel, seams
from sim.runner import RunResult
from worlds import common, ao as aw
from checks import ao_common as ac

PID = 'C07'
SCHEDULE_DEPENDENT = True
RULE = ('2-3 real ActiveObjects, each with spied or un-spied states (drawn independently), the real fabric; seeded histories '
        'in which objects subscribe to a signal before start_at, after it from a client thread, or from one of their own '
        'handlers, fifo and/or lifo, with 0-2 other objects already subscribed to the same signal, and publish from clients '
        'and from handlers, before and after start; delivery threads, consumers and clients are interleaved by the seeded '
        'scheduler. Oracle: a subscription made on a started object counts from the moment subscribe() returned; one made before '
        'start_at (it travels as a meta event) counts once the object was started and the system was idle since; every publication whose publish() call '
        'began after that point must appear in the subscriber\'s dispatch log exactly once per subscribed kind by quiescence, '
        'and never more often than it subscribed. Non-trivial = a publication with >= 1 effective subscriber; distinct = '
        'distinct (spied flags, where each subscription was made, who published from where) tuples.')
ASSUMPTIONS = ['no stop in this stratum; publications concurrent with a subscription may or may not reach it']
PROBES = ['unspied_subscriber', 'late_subscriber_with_prior_subscribers', 'publish_before_start', 'subscribe_from_handler']
PLAN = {
  'quick': {'strata': {'configs': 3000, 'concurrent-subscribe': 1500}, 'wall_s': 300, 'chunk': 50, 'min_conclusive': 800},
  'thorough': {'strata': {'configs': 80000, 'concurrent-subscribe': 40000}, 'wall_s': 900, 'chunk': 100, 'min_conclusive': 800},
}


def generate(seed, stratum, tier):
  rng = random.Random(seed)
  if stratum == 'concurrent-subscribe':
    # several objects subscribe to a signal nobody has subscribed to yet, at the same time
    # (from different client threads or from their own threads)
    nobj = rng.randrange(2, 4)
    objs = aw.default_objects(nobj)
    for o in objs:
      o['spied'] = rng.random() < 0.6
      o['instrumented'] = rng.random() < 0.8      # ActiveObject(instrumented=False): no spy, no trace
      o['react'] = {}
    kind = rng.choice(['fifo', 'lifo', None])
    c0 = [['start', i] for i in range(nobj)] + [['await_idle'], ['barrier', nobj]]
    clients = [c0] + [[['barrier', nobj]] for _ in range(nobj - 1)]
    for i in range(nobj):
      k = kind if rng.random() < 0.8 else rng.choice(['fifo', 'lifo'])
      if rng.random() < 0.5:
        clients[i].append(['subscribe', i, 'SD', k, rng.choice(['event', 'event', 'int'])])
      else:
        objs[i]['react']['SB'] = [{'op': 'subscribe', 'sig': 'SD', 'kind': k, 'id': 1, 'max': 1, 'form': rng.choice(['event', 'event', 'int'])}]
        clients[i].append(['post_fifo', i, 'SB'])
    if clients[0][-1][0] != 'await_idle':
      pass
    clients[0] += [['sleep', 0.01], ['await_idle'], ['publish', rng.randrange(nobj), 'SD', None], ['await_idle']]
    return {'objects': objs, 'queue_size': 500, 'clients': clients, 'stalls': {},
            'sched': common.draw_sched(rng, grans=('line', 'opcode'), weights=(1, 2), expected_steps=300, policies=('sticky', 'pct'))}
  nobj = rng.randrange(2, 4)
  objs = aw.default_objects(nobj)
  for i, o in enumerate(objs):
    o['spied'] = rng.random() < 0.6
    o['instrumented'] = rng.random() < 0.8
    o['react'] = {}
  c = []
  started = set()
  order = list(range(nobj))
  rng.shuffle(order)
  # phase A: before start
  for i in order:
    if rng.random() < 0.35:
      c.append(['subscribe', i, 'SD', rng.choice(['fifo', 'lifo', None]), rng.choice(['event', 'event', 'int'])])
    if rng.random() < 0.2:
      c.append(['publish', i, 'SD', rng.choice([None, 1])])
    c.append(['start', i])
  c.append(['await_idle'])
  # phase B: after start, from clients and from handlers
  for i in order:
    r = rng.random()
    if r < 0.45:
      c.append(['subscribe', i, 'SD', rng.choice(['fifo', 'lifo', None]), rng.choice(['event', 'event', 'int'])])
      if rng.random() < 0.4:
        # a publication made as soon as subscribe() has returned (the chart may be busy: a post first)
        if rng.random() < 0.5:
          c.append(['post_fifo', i, 'SA'])
        c.append(['publish', rng.randrange(nobj), 'SD', rng.choice([None, 1])])
    elif r < 0.7:
      objs[i]['react']['SB'] = [{'op': 'subscribe', 'sig': 'SD', 'kind': rng.choice(['fifo', 'lifo', None]), 'id': 1, 'max': 1,
                                 'form': rng.choice(['event', 'event', 'int'])}]
      c.append(['post_fifo', i, 'SB'])
    if rng.random() < 0.3:
      c.append(['await_idle'])
  c.append(['await_idle'])
  # a second signal: an object that already subscribed to one signal subscribes to another, the same way
  second = rng.random() < 0.5
  if second:
    for i in order:
      if rng.random() < 0.7:
        c.append(['subscribe', i, 'SE', rng.choice(['fifo', 'lifo', None]), rng.choice(['event', 'event', 'int'])])
    c.append(['await_idle'])
    for _ in range(rng.randrange(1, 3)):
      c.append(['publish', rng.randrange(nobj), 'SE', rng.choice([None, 1])])
  # phase C: publications
  for _ in range(rng.randrange(1, 4)):
    x = rng.randrange(nobj)
    if rng.random() < 0.6:
      c.append(['publish', x, 'SD', rng.choice([None, 1, 5])])
    else:
      objs[x]['react']['SC'] = [{'op': 'publish', 'sig': 'SD', 'prio': rng.choice([None, 1]), 'id': 2, 'max': 3}]
      c.append(['post_fifo', x, 'SC'])
  if nobj > 1 and rng.random() < 0.2:
    # the last thing an object does: its handler calls stop() and, still in that step, publishes (its thread is alive)
    x = rng.randrange(nobj)
    objs[x]['react']['TSTOP'] = [{'op': 'stop', 'id': 5, 'max': 1}, {'op': 'publish', 'sig': 'SD', 'prio': None, 'id': 6, 'max': 1}]
    c.append(['await_idle'])
    c.append(['post_fifo', x, 'TSTOP'])
  c.append(['await_idle'])
  return {'objects': objs, 'queue_size': 500, 'clients': [c], 'stalls': common.draw_stalls(rng, 2500, rate=0.3),
          'sched': common.draw_sched(rng, grans=('sync', 'line'), expected_steps=2500, victims=[rng.choice(['consumer', 'fabric.fifo', 'fabric.lifo'])])}


def shrink_candidates(sc):
  if sc.get('stalls'):
    yield dict(sc, stalls={})
  if len(sc['clients']) > 1:
    if sc['sched'].get('gran') == 'opcode':
      yield dict(sc, sched=dict(sc['sched'], gran='line'))
    return
  s = sc['clients'][0]
  for j in range(len(s) - 1, -1, -1):
    if s[j][0] in ('start',):
      continue
    yield dict(sc, clients=[s[:j] + s[j + 1:]])
  objs = sc['objects']
  for i, o in enumerate(objs):
    if not o['spied']:
      yield dict(sc, objects=objs[:i] + [dict(o, spied=True)] + objs[i + 1:])


def execute(sc, sched):
  res = RunResult()
  run, sim, reason = aw.run_ao(sc, sched, max_steps=400000)
  try:
    if ac.base_judge(run, sim, reason, res):
      judge(sc, run, sim, res)
    if res.outcome == 'violation' or sched.get('seed', 0) % 499 == 0:
      res.sample = {'objects': [{'name': o['name'], 'spied': o['spied'], 'react': o.get('react')} for o in sc['objects']],
                    'client': sc['clients'][0],
                    'subscriptions': [{k: str(s[k]) for k in ('obj', 'sig', 'kind', 'where', 'before_start')} for s in run.subs],
                    'publications': {u: {k: str(p[k]) for k in ('sig', 'by', 'obj')} for u, p in run.pubs.items()},
                    'dispatched': [(run.names[d[1]], d[2], d[3]) for d in run.dispatch[:20]]}
  finally:
    common.finish(sim, res)
  return res


def judge(sc, run, sim, res):
  idle_seqs = sorted(m[0] for m in run.idle_marks)
  nobj = len(run.objs)
  for oi in range(nobj):
    if oi not in run.started:
      res.outcome, res.reason = 'inconclusive', 'an object was never started'
      return
  eff = {}      # (obj, kind, signal) -> seq from which the subscription counts
  asked = {}    # (obj, kind, signal) -> earliest begin
  for s in run.subs:
    if s['sig'] not in ('SD', 'SE'):
      continue
    key = (s['obj'], s['kind'], s['sig'])
    asked[key] = min(asked.get(key, 10 ** 12), s['begin'])
    if s['end'] is None:
      continue
    if not s['before_start'] and run.started[s['obj']] < s['begin']:
      # subscribe() on a started object: publications made after the call returned must arrive
      eff[key] = min(eff.get(key, 10 ** 12), s['end'])
      continue
    # subscribed before (or while) the object was started: the request travels as a meta event,
    # it counts once the object was started and the system has been idle
    ready = max(s['end'], run.started[s['obj']])
    nxt = [q for q in idle_seqs if q > ready]
    if nxt:
      eff[key] = min(eff.get(key, 10 ** 12), nxt[0])
  for uid, p in sorted(run.pubs.items()):
    if p['sig'] not in ('SD', 'SE') or p['end'] is None:
      continue
    for oi in range(nobj):
      if any(st_['obj'] == oi for st_ in run.stops):
        continue      # an object that stopped itself receives nothing any more; the others still must
      got = sum(1 for d in run.dispatch if d[1] == oi and d[3] == uid)
      need = [k for (o, k, sg), q in eff.items() if o == oi and sg == p['sig'] and q < p['begin']]
      could = [k for (o, k, sg), b in asked.items() if o == oi and sg == p['sig']]
      if need:
        sim.probe('publication_with_effective_subscriber')
      if got < len(need):
        sub_recs = [s for s in run.subs if s['obj'] == oi and s['sig'] == p['sig']]
        where = sorted(set('%s%s' % (s['where'] if s['where'] == 'handler' else 'client', '-before-start' if s['before_start'] else '') for s in sub_recs))
        others = sorted(set(s['obj'] for s in run.subs if s['obj'] != oi and s['begin'] < min(s2['begin'] for s2 in sub_recs)))
        res.violate('publication-not-received', {'spied': bool(sc['objects'][oi]['spied']), 'prior_subscribers': bool(others), 'second_signal': p['sig'] != 'SD',
                                                 'publisher_spied': bool(sc['objects'][p['obj']]['spied'])},
                    ('%s (spied=%s) subscribed to ' + p['sig'] + ' as %s (%s) and was idle afterwards, then %s published %s (by %s, publisher spied=%s, priority %s): dispatched %d time(s), expected %d; objects subscribed earlier: %s') % (
                      run.names[oi], sc['objects'][oi]['spied'], need, where, run.names[p['obj']], uid, p['by'], sc['objects'][p['obj']]['spied'], p['prio'],
                      got, len(need), [run.names[o] for o in others]))
        return
      if got > len(could):
        res.violate('publication-received-too-often', {}, '%s dispatched %s %d times but subscribed only as %s' % (run.names[oi], uid, got, could))
        return
  # reach
  conf = []
  for s in run.subs:
    conf.append((s['obj'], kernel._stable(s['kind']), s['where'] == 'handler', s['before_start']))
    if not sc['objects'][s['obj']]['spied']:
      sim.probe('unspied_subscriber')
    if s['where'] == 'handler':
      sim.probe('subscribe_from_handler')
    if not s['before_start'] and any(s2['obj'] != s['obj'] and s2['begin'] < s['begin'] for s2 in run.subs):
      sim.probe('late_subscriber_with_prior_subscribers')
  for p in run.pubs.values():
    if not p['started']:
      sim.probe('publish_before_start')
  if any(q < p['begin'] for q in eff.values() for p in run.pubs.values()):
    res.nontrivial.append(hash((tuple(bool(o['spied']) for o in sc['objects']), tuple(conf),
                                tuple((p['obj'], p['by'] == 'handler', p['started']) for p in run.pubs.values()))))
