"""C13 - fabric start/stop/restart keeps exactly one delivery thread per kind."""
import random

from sim import kernel, seams
from sim.runner import RunResult
from worlds import common, fabric as fw

PID = 'C13'
SCHEDULE_DEPENDENT = True
RULE = ('the real ActiveFabric driven by seeded histories over {start, start again while running, stop, stop again, clear, '
        'subscribe, publish, is_alive, start of an active object (which starts the fabric if it is not alive), waking an '
        'active object after a fabric stop}: one client for the sequential histories, 2-3 clients for concurrent start() / '
        'ActiveObject.start_at calls (line and bytecode granularity inside start/initiate_thread/start_thread); in 40% of the sequential histories a delivery thread is stalled for up to a minute of virtual time (slow node), possibly in the middle of a delivery; in a third stratum a subscriber queue whose append raises (injected fault) kills the delivery thread that serves it, and start/stop/is_alive go on being called on the half-alive fabric. Oracle: the '
        'kernel counts live delivery threads itself at every pre-emption point - never more than one fifo and one lifo '
        'thread; is_alive() equals "both kernel-level threads are alive" whenever that did not change during the call; after '
        'stop() returns (it must return: deadlock detection) both threads are dead and an active object woken afterwards ends '
        'its thread without dispatching; after a later start() a fresh subscription receives a fresh publication exactly '
        'once. Non-trivial = a history with start while running, or a restart after stop, or two overlapping starts; distinct '
        '= distinct (op kind sequence, interleaving signature) tuples.')
ASSUMPTIONS = ['stop histories are sequential (one client): with a concurrent start() the state after stop() is not determined by the statement']
PROBES = ['start_while_alive', 'restart_after_stop', 'overlapping_starts', 'delivery_thread_killed_by_subscriber_fault']
PLAN = {
  'quick': {'strata': {'sequential': 2500, 'concurrent-start': 2500, 'half-alive': 1000}, 'wall_s': 300, 'chunk': 50, 'min_conclusive': 1000},
  'thorough': {'strata': {'sequential': 60000, 'concurrent-start': 60000, 'half-alive': 30000}, 'wall_s': 900, 'chunk': 100, 'min_conclusive': 1000},
}


def generate(seed, stratum, tier):
  rng = random.Random(seed)
  queues = [{'kind': 'deque', 'prefill': 0}, {'kind': 'deque', 'prefill': 0}]
  if stratum == 'sequential':
    ops = []
    n_ao = 0
    for _ in range(common.span(rng, 2, 12, common.deep(rng), 3)):
      k = rng.choices(['start', 'stop', 'is_alive', 'clear', 'ao_start', 'ao_wake', 'subscribe', 'publish', 'ao_print'],
                      weights=[5, 4, 3, 1, 2, 2, 1, 1, 1.5])[0]
      if k == 'ao_start':
        if n_ao >= 2:
          continue
        ops.append(['ao_start', n_ao])
        n_ao += 1
      elif k == 'ao_wake':
        if n_ao:
          ops.append(['ao_wake', rng.randrange(n_ao)])
      elif k == 'ao_print':
        if n_ao:
          for _ in range(rng.randrange(1, 4)):
            ops.append(['ao_print', rng.randrange(n_ao)])
      elif k == 'subscribe':
        ops.append(['subscribe', 0, 'SA', 'fifo', 'event'])
      elif k == 'publish':
        ops.append(['publish', 'SA', None])
      else:
        ops.append([k])
    # epilogue: a restart must resume delivery for subsequent subscriptions and publications
    ops += [['start'], ['is_alive'], ['subscribe', 1, 'SZ', rng.choice(['fifo', 'lifo']), 'event'], ['publish', 'SZ', None], ['sleep', 0.01], ['is_alive']]
    clients = [ops]
    sd = common.draw_sched(rng, grans=('sync', 'line'), expected_steps=500, victims=['fabric.fifo'])
    sc = {'queues': queues, 'clients': clients, 'stratum': stratum, 'sched': sd}
    if rng.random() < 0.4:
      # the "slow node" fault aimed at the delivery threads: one of them is descheduled for up to minutes of virtual
      # time, possibly in the middle of a delivery, while the client goes on to stop and restart the fabric
      sc['stalls'] = common.draw_stalls(rng, 400, rate=1.0, n=(1, 4), durations=(50000, 1500000, 5000000, 60000000))
      sc['stall_roles'] = ['fabric.fifo', 'fabric.lifo']
    return sc
  elif stratum == 'half-alive':
    # fault injection: a subscriber queue whose append raises kills the delivery thread that serves it; the fabric is
    # then half alive (one thread of one kind left) while start/stop/is_alive go on being called
    kind = rng.choice(['fifo', 'lifo'])
    nth = rng.choice([0, 0, 1])
    queues = queues + [{'kind': 'faulty', 'fail_at': [nth]}]
    ops = [['start'] if rng.random() < 0.6 else ['ao_start', 0], ['subscribe', 2, 'SF', kind, 'event']]
    if rng.random() < 0.4:
      ops.append(['subscribe', 0, 'SF', kind, 'event'])
    for _ in range(nth + 1):
      ops += [['publish', 'SF', None], ['sleep', 0.01]]
    for _ in range(rng.randrange(1, 7)):
      k = rng.choices(['start', 'stop', 'is_alive', 'publish', 'ao_start'], weights=[5, 3, 3, 1, 1])[0]
      if k == 'publish':
        ops.append(['publish', 'SA', None])
      elif k == 'ao_start':
        if not any(o[0] == 'ao_start' and o[1] == 1 for o in ops):
          ops.append(['ao_start', 1])
      else:
        ops.append([k])
    ops += [['start'], ['is_alive'], ['subscribe', 1, 'SZ', rng.choice(['fifo', 'lifo']), 'event'], ['publish', 'SZ', None], ['sleep', 0.01], ['is_alive']]
    sd = common.draw_sched(rng, grans=('sync', 'line'), expected_steps=500, victims=['fabric.fifo'])
    return {'queues': queues, 'clients': [ops], 'stratum': stratum, 'sched': sd}
  else:
    nclients = rng.randrange(2, 4)
    clients = []
    for c in range(nclients):
      k = rng.choice(['start', 'ao_start', 'ao_start'])
      s = [[k, c] if k == 'ao_start' else [k]]
      if rng.random() < 0.4:
        s.append(['start'])
      if rng.random() < 0.5:
        s.append(['is_alive'])
      clients.append(s)
    clients[0] += [['sleep', 0.01], ['is_alive'], ['subscribe', 1, 'SZ', 'fifo', 'event'], ['publish', 'SZ', None], ['sleep', 0.01]]
    sd = common.draw_sched(rng, grans=('line', 'opcode'), weights=(1, 2), expected_steps=700, policies=('sticky', 'pct'))
    if rng.random() < 0.3:
      # nobody has asked for the fabric before: the concurrent clients make the first ActiveFabric() requests themselves
      return {'queues': queues, 'clients': clients, 'stratum': stratum, 'sched': sd, 'lazy_fabric': True}
  return {'queues': queues, 'clients': clients, 'stratum': stratum, 'sched': sd}


def shrink_candidates(sc):
  cl = sc['clients']
  if sc.get('stalls'):
    yield {k: v for k, v in sc.items() if k not in ('stalls', 'stall_roles')}
    if len(sc['stalls']) > 1:
      for k in sorted(sc['stalls']):
        yield dict(sc, stalls={kk: v for kk, v in sc['stalls'].items() if kk != k})
  for i, s in enumerate(cl):
    for j in range(len(s) - 1, -1, -1):
      yield dict(sc, clients=cl[:i] + [s[:j] + s[j + 1:]] + cl[i + 1:])
  if len(cl) > 2:
    for i in range(1, len(cl)):
      yield dict(sc, clients=cl[:i] + cl[i + 1:])
  if sc['sched'].get('gran') == 'opcode':
    yield dict(sc, sched=dict(sc['sched'], gran='line'))


def execute(sc, sched):
  res = RunResult()
  run, sim, reason = fw.run_fabric(sc, sched, max_steps=200000)
  try:
    judge(sc, run, sim, reason, res)
    kinds = [o[0] for c in sc['clients'] for o in c]
    # reach
    alive = False
    nt = False
    if sc['stratum'] in ('sequential', 'half-alive'):
      if sim.faults.get('subscriber_append_raises'):
        sim.probe('delivery_thread_killed_by_subscriber_fault')
        nt = True
      stopped_once = False
      for o in sc['clients'][0]:
        if o[0] in ('start', 'ao_start'):
          if alive and o[0] == 'start':
            sim.probe('start_while_alive')
            nt = True
          if stopped_once and not alive:
            sim.probe('restart_after_stop')
            nt = True
          alive = True
        elif o[0] == 'stop':
          if alive:
            stopped_once = True
          alive = False
    else:
      spans = [(b, e) for k, i, op, b, e, out in run.ops_log if op[0] in ('start', 'ao_start')]
      for a in range(len(spans)):
        for b in range(a + 1, len(spans)):
          if spans[a][0] < spans[b][1] and spans[b][0] < spans[a][1]:
            nt = True
      if nt:
        sim.probe('overlapping_starts')
    if nt:
      res.nontrivial.append(hash((tuple(kernel._stable(k) for k in kinds), sim.switch_signature())))
    if res.outcome == 'violation' or sched.get('seed', 0) % 499 == 0:
      res.sample = {'clients': sc['clients'], 'max_live_threads': run.max_live, 'is_alive_reports': run.alive_reports[:8],
                    'ao_wakes': run.ao_wakes[:4], 'outcome': res.outcome}
  finally:
    common.finish(sim, res)
  return res


def judge(sc, run, sim, reason, res):
  if reason == 'budget':
    res.outcome, res.reason = 'inconclusive', 'step budget'
    return
  for role in ('fabric.fifo', 'fabric.lifo'):
    if run.max_live[role] > 1:
      res.violate('two-delivery-threads', {'role': role, 'stratum': sc['stratum']},
                  '%d live %s threads at the same time; history: %s' % (run.max_live[role], role, sc['clients']))
      return
  stuck = [t for t in sim.threads if t.role in ('client', 'main') and t.state != kernel.DONE]
  if stuck:
    cur = None
    for k, i, op, b, e, out in run.ops_log:
      pass
    res.violate('call-blocked', {'at': stuck[0].desc.split(':')[0], 'stratum': sc['stratum']},
                'a client is parked for ever at %s; history: %s; threads: %s' % (
                  stuck[0].desc, sc['clients'], [(t.name, kernel.STATE_NAMES[t.state], t.desc) for t in sim.threads if t.state != kernel.DONE]))
    return
  if run.errors:
    k, i, op, typ, tb = run.errors[0]
    res.violate('call-raised', {'op': op[0], 'exc': typ}, 'client %d op#%d %s raised %s\n%s' % (k, i, op, typ, tb))
    return
  if sim.thread_errors:
    # a delivery thread killed by the injected subscriber fault is the fault, not a finding
    common.thread_error_violations(sim, res, allow=('InjectedFault',))
    if res.outcome == 'violation':
      return
  for seq, reported, before, after in run.alive_reports:
    if before == after and bool(reported) != before:
      res.violate('is-alive-wrong', {'reported': bool(reported)},
                  'is_alive() returned %r while the delivery threads were %s; history: %s' % (reported, 'both alive' if before else 'not both alive', sc['clients']))
      return
  if sc['stratum'] in ('sequential', 'half-alive'):
    for k, i, op, b, e, out in run.ops_log:
      if op[0] == 'stop' and out is True:
        res.violate('alive-after-stop', {}, 'stop() returned but delivery threads are still alive; history: %s' % sc['clients'])
        return
    for w in run.ao_wakes:
      if not w['fabric_running_before'] and not w['fabric_running_after']:
        if w['alive_after'] or w['dispatched']:
          res.violate('active-object-survives-fabric-stop', {'dispatched': w['dispatched']},
                      'the fabric was stopped, active object ao%d was then woken by a post and %s; history: %s' % (
                        w['ao'], 'dispatched the event' if w['dispatched'] else 'its thread is still alive', sc['clients']))
          return
  # resume: a publication of SZ made while the fabric runs, after queue q1 subscribed to
  # SZ, with no stop/clear in between, must arrive exactly once
  log = sorted(run.ops_log, key=lambda r: r[3])
  for uid, p in sorted(run.pubs.items()):
    if p['sig'] != 'SZ' or p['end'] is None:
      continue
    sub = [r for r in log if r[2][0] == 'subscribe' and r[2][2] == 'SZ' and r[4] < p['begin'] and r[5] is None]
    if not sub:
      continue
    sub_end = sub[-1][4]
    starts = [r for r in log if r[2][0] in ('start', 'ao_start') and r[4] < p['begin'] and r[5] in (None, True)]
    if not starts:
      continue
    st_begin = starts[-1][3]
    # anything that stops or clears after that start began cancels the obligation
    if any(r[2][0] in ('stop', 'clear') and r[4] > st_begin for r in log):
      continue
    if any(r[2][0] == 'clear' and r[4] > sub[-1][3] for r in log):
      continue
    n = sum(1 for d in run.deliveries() if d[4] == uid)
    if n != 1:
      res.violate('no-delivery-after-restart', {'count': n, 'stratum': sc['stratum']},
                  'queue q1 subscribed to SZ while the fabric was started, then SZ was published: %d deliveries; live threads: %s; history: %s' % (
                    n, [(t.name, t.desc) for t in sim.threads if t.role.startswith('fabric') and t.state != kernel.DONE], sc['clients']))
      return
