"""C25 - signal names and numbers form a stable one-to-one registry, even under threads."""
import random

from sim import kernel, seams
from sim.runner import RunResult
from worlds import common

PID = 'C25'
SCHEDULE_DEPENDENT = True
RULE = ('2-5 simulated threads run seeded scripts over a small pool of overlapping signal names: signals.append(name), '
        'attribute access signals.NAME, Event(signal=name), Event(signal=number), name_for_signal, is_inner_signal; the '
        'scheduler may switch at every line or bytecode of miros/event.py (sticky walk / PCT); a single-thread stratum '
        'covers name sequences alone; now and then a script also registers a name in a separate SignalSource instance of its own. Oracle: no exception in any thread; every observation of a name\'s number equals the '
        'first one; at the end the numbers are distinct and positive, name_for_signal inverts the binding for every name, the '
        'ten built-in signals are exactly the inner signals (by name and by number), and every constructed event reports the '
        'name it was built from and that name\'s number. Non-trivial = two threads were inside a registering call at the same '
        'time; distinct = distinct (ops in flight, interleaving of registration begin/end events) tuples.')
ASSUMPTIONS = []
PROBES = ['overlapping_registrations']
PLAN = {
  'quick': {'strata': {'threads': 14000, 'sequential': 1000}, 'wall_s': 300, 'chunk': 100, 'min_conclusive': 1000},
  'thorough': {'strata': {'threads': 150000, 'sequential': 20000}, 'wall_s': 900, 'chunk': 250, 'min_conclusive': 1000},
}
INNER = ['ENTRY_SIGNAL', 'EXIT_SIGNAL', 'INIT_SIGNAL', 'REFLECTION_SIGNAL', 'EMPTY_SIGNAL', 'SEARCH_FOR_SUPER_SIGNAL',
         'STOP_FABRIC_SIGNAL', 'STOP_ACTIVE_OBJECT_SIGNAL', 'SUBSCRIBE_META_SIGNAL', 'PUBLISH_META_SIGNAL']
KINDS = ['append', 'attr', 'event_name', 'event_num', 'name_for', 'is_inner']


def generate(seed, stratum, tier):
  rng = random.Random(seed)
  big = common.deep(rng)
  nthreads = 1 if stratum == 'sequential' else common.span(rng, 2, 6, big)
  pool = ['N%d' % i for i in range(common.span(rng, 2, 7, big, 3))]
  scripts = []
  for t in range(nthreads):
    n = rng.randrange(1, 5) if stratum != 'sequential' else rng.randrange(3, 20)
    sc = []
    for _ in range(n):
      k = rng.choices(KINDS, weights=[4, 4, 4, 2, 2, 1])[0]
      name = rng.choice(pool + INNER[:2]) if k in ('event_num', 'name_for', 'is_inner') else rng.choice(pool)
      sc.append([k, name])
      if rng.random() < 0.12:
        # a registry of its own (another SignalSource instance, as a test or a tool makes one) is used next to the shared one
        sc.append(['other', rng.choice(pool)])
    scripts.append(sc)
  return {'scripts': scripts, 'pool': pool,
          'sched': common.draw_sched(rng, grans=('line', 'opcode'), weights=(2, 3), expected_steps=150, policies=('sticky', 'pct'))}


def shrink_candidates(sc):
  scripts = sc['scripts']
  if len(scripts) > 1:
    for i in range(len(scripts)):
      yield dict(sc, scripts=scripts[:i] + scripts[i + 1:])
  for i, s in enumerate(scripts):
    for j in range(len(s) - 1, -1, -1):
      if len(s) > 1:
        yield dict(sc, scripts=scripts[:i] + [s[:j] + s[j + 1:]] + scripts[i + 1:])
  if sc['sched'].get('gran') == 'opcode':
    yield dict(sc, sched=dict(sc['sched'], gran='line'))


def execute(sc, sched):
  res = RunResult()
  sim = common.new_sim(sc, sched, max_steps=100000)
  ev = seams.mods['event']
  signals = ev.signals
  obs = []      # (thread, op, name, number observed or None, extra)
  errors = []
  others = []   # at most one separate SignalSource instance per run

  def client(k, script):
    for op, name in script:
      sim.record('c25', 'op', 'begin', (k, op))
      try:
        if op == 'append':
          signals.append(name)
          obs.append((k, op, name, signals[name], None))
        elif op == 'attr':
          obs.append((k, op, name, getattr(signals, name), None))
        elif op == 'event_name':
          e = ev.Event(signal=name)
          obs.append((k, op, name, e.signal, e.signal_name))
        elif op == 'event_num':
          if name in signals:
            num = signals[name]
            e = ev.Event(signal=num)
            obs.append((k, op, name, e.signal, e.signal_name))
        elif op == 'name_for':
          if name in signals:
            num = signals[name]
            obs.append((k, op, name, num, signals.name_for_signal(num)))
        elif op == 'is_inner':
          if name in signals:
            obs.append((k, op, name, signals[name], (signals.is_inner_signal(name), signals.is_inner_signal(signals[name]))))
        elif op == 'other':
          if not others:
            others.append(ev.SignalSource())
          o = others[0]
          o.append('OTHER_' + name)
          if o.name_for_signal(o['OTHER_' + name]) != 'OTHER_' + name:
            errors.append((k, op, name, 'WrongName', 'the separate registry: name_for_signal(%s) = %r, expected %s' % (o['OTHER_' + name], o.name_for_signal(o['OTHER_' + name]), 'OTHER_' + name)))
      except kernel.SimAbort:
        raise
      except BaseException as e:  # noqa
        import traceback
        errors.append((k, op, name, type(e).__name__, traceback.format_exc()[-700:]))
      sim.record('c25', 'op', 'end', (k, op))

  for k, script in enumerate(sc['scripts']):
    sim.spawn(client, (k, script), role='client')
  reason = sim.run()
  if reason == 'budget':
    res.outcome, res.reason = 'inconclusive', 'step budget'
  elif any(t.state != kernel.DONE for t in sim.threads):
    res.violate('blocked', {}, 'a registry call never returned')
  elif errors:
    k, op, name, typ, tb = errors[0]
    res.violate('raised', {'op': op, 'exc': typ}, 'thread %d: %s(%s) raised %s\n%s' % (k, op, name, typ, tb))
  else:
    judge(sc, signals, obs, res)
  # reach
  open_, overlap, order = {}, False, []
  for seq, tn, kind, label, op, detail in sim.history:
    if kind != 'c25':
      continue
    k, what = detail
    registering = what in ('append', 'attr', 'event_name')
    if op == 'begin':
      if registering and any(v for kk, v in open_.items() if kk != k):
        overlap = True
      open_[k] = registering
    else:
      open_[k] = False
    order.append((op == 'begin', k, kernel._stable(what)))
  if overlap:
    sim.probe('overlapping_registrations')
    res.nontrivial.append(hash(tuple(order)))
  if res.outcome == 'violation' or sched.get('seed', 0) % 499 == 0:
    res.sample = {'scripts': sc['scripts'], 'observations': [list(map(str, o)) for o in obs[:12]],
                  'registry': {k: v for k, v in list(signals.items())[10:]}, 'overlap': overlap}
  common.finish(sim, res)
  return res


def judge(sc, signals, obs, res):
  first = {}
  for k, op, name, num, extra in obs:
    if name in first and first[name] != num:
      res.violate('number-changed', {}, 'name %s was bound to %s and later observed as %s (thread %d, %s)' % (name, first[name], num, k, op))
      return
    first.setdefault(name, num)
    if op in ('event_name', 'event_num') and extra != name:
      res.violate('event-name-mismatch', {'op': op}, 'Event built from %s reports signal_name %r (number %s)' % (name, extra, num))
      return
    if op == 'name_for' and extra != name:
      res.violate('name-for-signal', {}, 'name_for_signal(%s) returned %r, expected %s' % (num, extra, name))
      return
    if op == 'is_inner':
      want = name in INNER
      if extra != (want, want):
        res.violate('inner-signal', {'want': want}, 'is_inner_signal(%s / %s) returned %s' % (name, num, extra))
        return
  items = list(signals.items())
  nums = [v for _, v in items]
  if len(set(nums)) != len(nums):
    dup = sorted(set(n for n in nums if nums.count(n) > 1))
    res.violate('duplicate-number', {}, 'two names share a number: %s' % [(k, v) for k, v in items if v in dup])
    return
  if any((not isinstance(v, int)) or v <= 0 for v in nums):
    res.violate('non-positive-number', {}, str(items))
    return
  for name, num in items:
    if signals.name_for_signal(num) != name:
      res.violate('name-for-signal', {}, 'at the end name_for_signal(%s) = %r, expected %s' % (num, signals.name_for_signal(num), name))
      return
    want = name in INNER
    if signals.is_inner_signal(name) != want or signals.is_inner_signal(num) != want:
      res.violate('inner-signal', {'want': want}, 'at the end is_inner_signal(%s)=%s is_inner_signal(%s)=%s' % (
        name, signals.is_inner_signal(name), num, signals.is_inner_signal(num)))
      return
  for k, op, name, num, extra in obs:
    if signals[name] != num:
      res.violate('number-changed', {}, 'name %s observed as %s, bound to %s at the end' % (name, num, signals[name]))
      return
