"""shared by C27/C28/C29: classes built with MetaThreadSafeAttributes and client
statements given as source text (ThreadSafeAttribute.__get__ classifies the source line
of its caller, so statements must really be source lines)."""
import linecache

from sim import kernel, seams, prims
from worlds import common

_code_cache = {}
_counter = [0]


def compile_script(lines):
  """one statement per line, a marker call `_m(i)` after each; the text is registered in
  linecache so that inspect finds the caller's source line"""
  src_lines = []
  for i, st in enumerate(lines):
    src_lines.append(st)
    src_lines.append('_m(%d)' % i)
  src = '\n'.join(src_lines) + '\n'
  code = _code_cache.get(src)
  if code is None:
    _counter[0] += 1
    fname = '<tsa-script-%d>' % _counter[0]
    linecache.cache[fname] = (len(src), None, src.splitlines(True), fname)
    code = compile(src, fname, 'exec')
    if len(_code_cache) < 20000:
      _code_cache[src] = code
    seams.enable_events_for([code], opcode=True)
  return code


def make_class(attrs, name='Thing', value_equality=False, falsy=None):
  tsa = seams.mods['thread_safe_attributes']
  ns = {'_attributes': list(attrs)}
  if falsy == 'len':
    ns['__len__'] = lambda self: 0          # a container class whose instances are empty: they are falsy
  elif falsy == 'bool':
    ns['__bool__'] = lambda self: False
  if value_equality:
    # a class whose instances compare (and hash) equal by value: they are still distinct objects
    ns['__eq__'] = lambda self, other: type(other) is type(self)
    ns['__hash__'] = lambda self: 12345
  cls = tsa.MetaThreadSafeAttributes(name, (object,), ns)
  # the metaclass creates the descriptors in set order (PYTHONHASHSEED dependent): name the
  # simulated locks after their attribute so that event logs do not depend on that order
  for a in attrs:
    d = cls.__dict__.get(a)
    for v in (vars(d).values() if d is not None and hasattr(d, '__dict__') else []):
      if isinstance(v, prims.SimRLock):
        v._label = 'rlock:%s.%s' % (name, a)
  return cls


def descriptor(cls, attr):
  return cls.__dict__[attr]


def lock_of(cls, attr):
  return getattr(descriptor(cls, attr), '_lock', None)


def locks_owned_by(ctl, cls, attrs):
  out = []
  for a in attrs:
    d = cls.__dict__.get(a)
    for v in vars(d).values() if d is not None and hasattr(d, '__dict__') else []:
      if isinstance(v, prims.SimRLock) and v._owner is ctl:
        out.append(a)
  return out
