"""C10 - timed posts fire the requested number of times at the requested period."""
import random

from sim import kernel, seams
from sim.runner import RunResult
from worlds import common, ao as aw
from checks import ao_common as ac

PID = 'C10'
SCHEDULE_DEPENDENT = True
RULE = ('one real ActiveObject under virtual (discrete-event) time; 1-4 concurrent timed sources created by post_fifo/'
        'post_lifo with period from {0.1, 0.25, 1, 1.5, 2.5, 7, 60} s, times from 0-6, deferred True/False/default, started at drawn '
        'instants (in a quarter of the runs before start_at); the timer threads, the consumer and the clients are interleaved by the seeded scheduler. "exact" stratum: '
        'timers wake exactly on time (in 40% of the runs some handler invocations sleep for 0.5-6 periods: a chart that falls behind must not change what is posted); "jitter" stratum: every timer sleep is late by a drawn amount (injected fault); in 35% of all runs the wall clock (time.time/datetime.now, not the monotonic clock behind sleep) is stepped back or forth by seconds to an hour while sources run (clock fault: must change nothing). Oracle '
        '(timer calendar): the virtual instants at which each source\'s thread appends to the queue are exactly t0 + k*p '
        '(k from 1 if deferred, from 0 if not) in the exact stratum, and never earlier than that in the '
        'jitter stratum; exactly n postings for times = n >= 1; for times = 0 exactly the calendar\'s count up to the horizon; '
        'fifo sources append at the back, lifo sources at the front. Non-trivial = a run with >= 2 sources alive at the same '
        'time or an endless source; distinct = distinct (period, times, deferred, kind) sets per run.')
ASSUMPTIONS = ['virtual time: computation takes no time, so the exact stratum demands exact instants',
               'horizon for endless sources: 3-40 periods, at most 600 simulated seconds']
PROBES = ['endless_source', 'two_sources_alive', 'wall_clock_stepped_while_sources_run']
PLAN = {
  'quick': {'strata': {'exact': 2500, 'jitter': 1500}, 'wall_s': 300, 'chunk': 50, 'min_conclusive': 800},
  'thorough': {'strata': {'exact': 70000, 'jitter': 40000}, 'wall_s': 900, 'chunk': 100, 'min_conclusive': 800},
}
PERIODS = [0.1, 0.25, 1, 1.5, 2.5, 7, 60]


def generate(seed, stratum, tier):
  rng = random.Random(seed)
  objs = aw.default_objects(1, spied=rng.random() < 0.8)
  nsrc = rng.randrange(1, 5)
  share = rng.random() < 0.33
  c0 = [['start', 0]]
  maxp = 0.1
  endless = False
  minpe = 1e9
  for slot in range(nsrc):
    p = rng.choice(PERIODS)
    maxp = max(maxp, p)
    times = rng.choice([0, 1, 1, 2, 3, 6, None])
    if times in (0, None):
      endless = True
      minpe = min(minpe, p)
    if slot and rng.random() < 0.5:
      c0.append(['sleep', rng.choice([0.05, 0.1, 0.3, 1, 2.5])])
    # in a third of the runs sources share signal names (two heartbeats of the same kind): each keeps its own calendar
    sig = 'T%d' % (slot if not share else rng.randrange(2))
    c0.append(['timed', 0, rng.choice(['fifo', 'lifo']), sig, p, times, rng.choice([True, False, None]), slot])
  if rng.random() < 0.25:
    # sources armed before the object is started: the start comes a little later
    c0.remove(['start', 0])
    c0.append(['sleep', rng.choice([0.05, 0.3, 1.2, 8])])
    c0.append(['start', 0])
  clients = [c0]
  if rng.random() < 0.4:
    clients.append([['sleep', 0.001]] + [[rng.choice(['post_fifo', 'post_lifo']), 0, 'SA'] for _ in range(rng.randrange(1, 4))])
  horizon = min(600.0, maxp * rng.randrange(3, 41), minpe * 120) if endless else None
  sc = {'objects': objs, 'queue_size': 500, 'clients': clients, 'horizon_s': horizon, 'stratum': stratum,
        'sched': common.draw_sched(rng, grans=('sync', 'line'), expected_steps=1500, victims=['consumer'], policies=('sticky', 'pct', 'starve'))}
  if stratum == 'jitter':
    sc['jitter_us'] = rng.choice([[0, 1000], [0, 0, 50000], [200, 3000, 250000]])
  if rng.random() < 0.35:
    # clock fault: the wall clock (time.time(), datetime.now()) is stepped backwards or forwards while sources are
    # running - by an operator, NTP or a suspended VM.  Sleeping is not affected by such steps, so the calendar is not either
    span = maxp * rng.choice([1, 2, 4])
    sc['wall_steps'] = [[int(rng.uniform(0.0, span) * 1e6), int(rng.choice([-3600.0, -2.5 * maxp, -0.5 * maxp, 3 * maxp, 3600.0]) * 1e6)]
                        for _ in range(rng.randrange(1, 3))]
  if rng.random() < 0.4:
    # a slow chart: some handler invocations take 0.5-6 periods (the handler sleeps, holding no
    # lock), so the chart falls behind its timed sources; what the sources post must not change
    react = {}
    for slot in range(nsrc):
      if rng.random() < 0.7:
        react['T%d' % slot] = [{'op': 'sleep', 'd': maxp * rng.choice([0.5, 1.5, 3, 6]), 'id': 20 + slot, 'max': rng.randrange(1, 4)}]
    objs[0]['react'] = react
  return sc


def shrink_candidates(sc):
  if sc['objects'][0].get('react'):
    yield dict(sc, objects=[dict(sc['objects'][0], react={})])
  if sc.get('wall_steps'):
    yield {k: v for k, v in sc.items() if k != 'wall_steps'}
    if len(sc['wall_steps']) > 1:
      yield dict(sc, wall_steps=sc['wall_steps'][:1])
      yield dict(sc, wall_steps=sc['wall_steps'][1:])
  cl = sc['clients']
  if len(cl) > 1:
    yield dict(sc, clients=cl[:1])
  s = cl[0]
  for j in range(len(s) - 1, -1, -1):
    if s[j][0] == 'start':
      continue
    yield dict(sc, clients=[s[:j] + s[j + 1:]] + cl[1:])


def calendar(src, horizon_us):
  """expected posting instants (us) of a source without jitter"""
  p = int(round(src['period'] * 1e6))
  deferred = True if src['deferred'] is None else src['deferred']
  n = src['times'] if src['times'] is not None else 0
  out = []
  k = 1 if deferred else 0
  while True:
    t = src['t0_us'] + k * p
    if n and len(out) >= n:
      break
    if horizon_us is not None and t > horizon_us:
      break
    if not n and horizon_us is None:
      break
    out.append(t)
    k += 1
  return out


def execute(sc, sched):
  res = RunResult()
  hor = sc.get('horizon_s')
  def faults(sim):
    if sc.get('wall_steps'):
      sim.wall_steps = [tuple(x) for x in sc['wall_steps']]
  run, sim, reason = aw.run_ao(sc, sched, max_steps=400000, horizon_s=hor, before_run=faults)
  try:
    ok = ac.base_judge(run, sim, reason, res)
    if ok and reason not in ('quiescent', 'horizon'):
      res.outcome, res.reason = 'inconclusive', reason
      ok = False
    if ok:
      judge(sc, run, sim, reason, res)
    kinds = tuple(sorted((s['period'], s['times'] if s['times'] is not None else -1, str(s['deferred']), s['kind']) for s in run.sources))
    alive2 = False
    spans = []
    for s in run.sources:
      cal = calendar(s, int(hor * 1e6) if hor else None)
      if cal:
        spans.append((s['t0_us'], cal[-1]))
    for a in range(len(spans)):
      for b in range(a + 1, len(spans)):
        if spans[a][0] < spans[b][1] and spans[b][0] < spans[a][1]:
          alive2 = True
    if any(s['times'] in (0, None) for s in run.sources):
      sim.probe('endless_source')
    if alive2:
      sim.probe('two_sources_alive')
    if sc.get('wall_steps') and any(any(s['t0_us'] <= at <= (calendar(s, int(hor * 1e6) if hor else None) or [s['t0_us']])[-1] for s in run.sources) for at, _d in sc['wall_steps']):
      sim.probe('wall_clock_stepped_while_sources_run')
      sim.fault('wall_clock_step')
    if alive2 or any(s['times'] in (0, None) for s in run.sources):
      res.nontrivial.append(hash(kinds))
    if res.outcome == 'violation' or sched.get('seed', 0) % 499 == 0:
      ta = ac.source_appends(run, 0) if run.objs else {}
      res.sample = {'sources': [{k: s[k] for k in ('kind', 'period', 'times', 'deferred', 't0_us', 'threads')} for s in run.sources],
                    'horizon_s': hor, 'jitter_us': sc.get('jitter_us'),
                    'append_instants_us': {k: [a[3] for a in v][:12] for k, v in ta.items()}}
  finally:
    common.finish(sim, res)
  return res


def judge(sc, run, sim, reason, res):
  hor_us = int(sc['horizon_s'] * 1e6) if sc.get('horizon_s') else None
  appends = ac.source_appends(run, 0)
  q = ac.replay_queue(run, 0)
  pos = {a[0]: a for a in q['adds']}
  jitter = bool(sc.get('jitter_us'))
  for s in run.sources:
    if s['rejected']:
      res.violate('timed-post-raised', {'exc': s['exc']}, 'timed post %s raised %s' % (s, s['exc']))
      return
    got = appends.get(s['uid'], [])
    desc = 'source %s/%s period=%s times=%s deferred=%s started at %.6fs' % (s['kind'], s['sig'], s['period'], s['times'], s['deferred'], s['t0_us'] / 1e6)
    want_op = 'append' if s['kind'] == 'fifo' else 'appendleft'
    for seq, op, uid, t, _tn in got:
      a = pos.get(seq)
      at_front, at_back = a[5] == 0, a[5] == a[6]
      if not (at_back if s['kind'] == 'fifo' else at_front):
        res.violate('timed-post-wrong-end', {'kind': s['kind']}, '%s: posting at t=%.6f landed at index %d of %d pending' % (desc, t / 1e6, a[5], a[6]))
        return
    inst = [g[3] for g in got]
    cal = calendar(s, hor_us)
    n = s['times'] if s['times'] is not None else 0
    if not jitter:
      if inst != cal:
        res.violate('timer-calendar', {'times0': not n, 'count': 'more' if len(inst) > len(cal) else ('fewer' if len(inst) < len(cal) else 'same')},
                    '%s\n expected posting instants %s\n observed %s' % (desc, [c / 1e6 for c in cal[:12]], [i / 1e6 for i in inst[:12]]))
        return
    else:
      p = int(round(s['period'] * 1e6))
      if n and len(inst) != n and reason == 'quiescent':
        res.violate('timer-count', {'count': 'more' if len(inst) > n else 'fewer'}, '%s posted %d times' % (desc, len(inst)))
        return
      for k, t in enumerate(inst):
        if k < len(cal) and t < cal[k]:
          res.violate('timer-early', {}, '%s: posting #%d at %.6f is earlier than its un-jittered instant %.6f' % (desc, k, t / 1e6, cal[k] / 1e6))
          return
        # (no demand on the gap after a late posting: a source that keeps to its original calendar posts the next
        # one on time, less than a period after the late one, and that is what "every p seconds" means as well)
      if not n and hor_us is not None:
        jmax = max(sc['jitter_us'])
        deferred = True if s['deferred'] is None else s['deferred']
        lo = max(0, (hor_us - s['t0_us']) // (p + jmax)) + (0 if deferred else 1) - 1
        hi = len(cal)
        if not (lo <= len(inst) <= hi):
          res.violate('timer-count', {'count': 'more' if len(inst) > hi else 'fewer'}, '%s posted %d times up to the horizon, expected between %d and %d' % (desc, len(inst), lo, hi))
          return
