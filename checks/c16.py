"""C16 - pending-event queues stay bounded, never block, and keep lifo posts; clear always works."""
import random

from sim import kernel, seams, prims
from sim.runner import RunResult
from worlds import common

PID = 'C16'
SCHEDULE_DEPENDENT = True
RULE = ('seeded operation histories (append/appendleft/pop/popleft/clear/len and the consumer protocol wait(block=False)+'
        'popleft+task_done) on queues of capacity 2-6, biased to run into the full queue (the overflow fault), executed by '
        'one simulated thread on (a) a LockingDeque directly, (b) a not-yet-started ActiveObject through post_fifo/post_lifo, '
        '(c) a queued chart (HsmWithQueues) through post_fifo/post_lifo; oracle: a relaxed bounded-deque model - never longer '
        'than capacity; a post returns (a poster parked for ever is "blocked"); after a fifo post the new event is last, after '
        'a lifo post it is first; on overflow exactly one older element is gone and the others keep their order (which one is '
        'not constrained); pop/popleft return the ends; clear() returns normally and leaves 0 events and 0 tokens; tokens >= '
        'events at every operation boundary and tokens == events in histories that only take through the consumer protocol; a '
        'concurrent stratum lets 2-3 threads post and clear() at the same time (optionally with a consuming thread) under the '
        'seeded scheduler (in part of the runs a small queue is flooded with posts while a consumer takes events) and demands that the '
        'consumer always takes the front event, and once everything is idle again a token for every pending event and no thread blocked. '
        'Non-trivial = a history that posts to a full queue or clears; distinct = distinct (target, capacity, op kinds at '
        'full-queue/empty-queue boundaries) tuples.')
ASSUMPTIONS = ['sequential histories: under concurrency tokens < events is legitimately transient and the obligation is C04\'s']
PROBES = ['post_on_full', 'lifo_on_full', 'clear_on_empty', 'clear_racing_posts']
PLAN = {
  'quick': {'strata': {'locking-deque': 6000, 'active-object': 2500, 'queued-chart': 2500, 'concurrent': 6000}, 'wall_s': 300, 'chunk': 200, 'min_conclusive': 1000},
  'thorough': {'strata': {'locking-deque': 200000, 'active-object': 60000, 'queued-chart': 60000, 'concurrent': 80000}, 'wall_s': 900, 'chunk': 500, 'min_conclusive': 1000},
}
OPS = ['append', 'appendleft', 'pop', 'popleft', 'clear', 'len', 'consume']


def generate(seed, stratum, tier):
  rng = random.Random(seed)
  if stratum == 'concurrent':
    cap = rng.choice([3, 4, 6, 500])
    threads = []
    race = rng.random() < 0.45
    if race:
      # overflow race: a small queue is flooded with fifo posts while a consumer takes events
      cap = rng.choice([2, 3, 3, 4])
      for t in range(rng.randrange(1, 4)):
        threads.append([rng.choices(['append', 'appendleft'], weights=[5, 1])[0] for _ in range(rng.randrange(cap + 1, cap + 6))])
    else:
      for t in range(rng.randrange(2, 4)):
        threads.append([rng.choices(['append', 'appendleft', 'clear'], weights=[4, 3, 2])[0] for _ in range(rng.randrange(1, 5))])
      if not any('clear' in t for t in threads):
        threads[0].append('clear')
    return {'target': 'concurrent', 'cap': cap, 'threads': threads, 'consumer': True if race else rng.random() < 0.5, 'ops': [],
            'sched': common.draw_sched(rng, grans=('line', 'opcode'), weights=(1, 2), expected_steps=300, policies=('sticky', 'pct'))}
  cap = rng.randrange(2, 7)
  n = common.span(rng, 3, 30, common.deep(rng), 4)
  consumer_only = stratum == 'locking-deque' and rng.random() < 0.4
  if stratum == 'locking-deque':
    if consumer_only:
      pool, w = ['append', 'appendleft', 'consume', 'clear', 'len'], [5, 4, 4, 1, 1]
    else:
      pool, w = OPS, [6, 5, 2, 2, 1, 1, 3]
  else:
    pool, w = ['append', 'appendleft'], [1, 1]
  ops = [rng.choices(pool, weights=w)[0] for _ in range(n)]
  sc = {'target': stratum, 'cap': cap, 'ops': ops, 'consumer_only': consumer_only,
        'sched': {'gran': 'line', 'policy': 'sticky', 's': 1.0}}
  if stratum == 'active-object' and rng.random() < 0.35:
    # the object is an instance of a subclass that declares its own QUEUE_SIZE (as subclasses of queued charts do);
    # whatever capacity the pending-event queue ends up with, it is judged against that capacity
    sc['class_cap'] = rng.choice([k for k in (2, 3, 4, 5, 6, 8) if k != cap])
  return sc


def shrink_candidates(sc):
  if sc.get('target') == 'concurrent':
    th = sc['threads']
    for i, t in enumerate(th):
      for j in range(len(t) - 1, -1, -1):
        if len(t) > 1:
          yield dict(sc, threads=th[:i] + [t[:j] + t[j + 1:]] + th[i + 1:])
    if len(th) > 2:
      for i in range(len(th)):
        yield dict(sc, threads=th[:i] + th[i + 1:])
    if sc.get('consumer'):
      yield dict(sc, consumer=False)
    return
  ops = sc['ops']
  n = len(ops)
  if n > 1:
    yield dict(sc, ops=ops[:n // 2])
    yield dict(sc, ops=ops[n // 2:])
  for i in range(n - 1, -1, -1):
    yield dict(sc, ops=ops[:i] + ops[i + 1:])
  if sc['cap'] > 2:
    yield dict(sc, cap=sc['cap'] - 1)


def relaxed_post_ok(before, after, item, end, cap):
  if len(before) < cap:
    return after == (before + [item] if end == 'back' else [item] + before)
  if len(after) != cap:
    return False
  if end == 'back':
    if after[-1] != item:
      return False
    rest = after[:-1]
  else:
    if after[0] != item:
      return False
    rest = after[1:]
  # rest must be `before` with exactly one element removed, order kept
  for i in range(len(before)):
    if before[:i] + before[i + 1:] == rest:
      return True
  return False


def execute_concurrent(sc, sched):
  """posting threads race clear() (and optionally a consumer); when everything is idle again
  there must be a wake-up token for every pending event and never more events than capacity"""
  res = RunResult()
  sim = common.new_sim(sc, sched, max_steps=100000)
  seams.set_queue_size(sc['cap'])
  ao = seams.mods['activeobject']
  box = {}
  errors = []
  over = []
  taken = []

  def client(k, ops):
    q = box['q']
    n = 0
    for op in ops:
      try:
        if op == 'clear':
          q.clear()
        else:
          n += 1
          (q.append if op == 'append' else q.appendleft)('t%d.%d' % (k, n))
      except kernel.SimAbort:
        raise
      except BaseException as e:  # noqa
        import traceback
        errors.append((k, op, type(e).__name__, traceback.format_exc()[-500:]))
      if q.deque.real_len() > sc['cap']:
        over.append((k, op, q.deque.real_len()))

  def consumer():
    q = box['q']
    while True:
      q.wait()
      if len(q):
        try:
          taken.append(q.popleft())
        except IndexError:
          pass
      q.task_done()

  def main():
    box['q'] = ao.LockingDeque()
    box['q'].deque._watch = True
    if sc.get('consumer'):
      sim.spawn(consumer, role='consumer')
    for k, ops in enumerate(sc['threads']):
      sim.spawn(client, (k, ops), role='client')

  sim.spawn(main, role='main')
  reason = sim.run()
  q = box.get('q')
  if reason == 'budget':
    res.outcome, res.reason = 'inconclusive', 'step budget'
  elif errors:
    k, op, typ, tb = errors[0]
    res.violate('op-raised-under-concurrency', {'op': op, 'exc': typ}, 'thread %d %s raised %s\n%s' % (k, op, typ, tb))
  elif any(t.role == 'client' and t.state != kernel.DONE for t in sim.threads):
    st = [t for t in sim.threads if t.role == 'client' and t.state != kernel.DONE]
    res.violate('post-blocked', {'op': 'concurrent', 'target': 'concurrent'}, 'a posting/clearing thread is parked for ever at %s' % st[0].desc)
  elif over:
    res.violate('over-capacity', {'op': over[0][1]}, 'queue held %d events, capacity %d' % (over[0][2], sc['cap']))
  elif q is not None:
    n, tk = q.deque.real_len(), q.locking_queue._qsize()
    from checks import ao_common as ac
    label = q.deque._label
    ops = [(seq, tn, op, detail, 0) for seq, tn, kind, lab, op, detail in sim.history if kind == 'deque' and lab == label]
    rq = ac.replay_ops(ops, sc['cap'])
    if rq['not_front']:
      seq, tn, got, queue = rq['not_front'][0]
      res.violate('took-not-the-front', {'op': 'concurrent'},
                  '%s took %s with popleft while the pending events were %s (front first); threads: %s' % (tn, got, queue, sc['threads']))
    elif tk < n:
      res.violate('token-lost', {'op': 'concurrent', 'consumer': bool(sc.get('consumer'))},
                  'all threads are idle: %d event(s) pending but only %d wake-up token(s) (a consumer would sleep on a non-empty queue); threads: %s' % (n, tk, sc['threads']))
  res.nontrivial.append(hash((sc['cap'], tuple(tuple(kernel._stable(o) for o in t) for t in sc['threads']), sim.switch_signature())))
  sim.probe('clear_racing_posts')
  if res.outcome == 'violation' or sched.get('seed', 0) % 499 == 0:
    res.sample = {'target': 'concurrent', 'capacity': sc['cap'], 'threads': sc['threads'], 'consumer': sc.get('consumer'),
                  'pending_at_idle': q.deque.real_len() if q is not None else None, 'tokens_at_idle': q.locking_queue._qsize() if q is not None else None}
  common.finish(sim, res)
  return res


def execute(sc, sched):
  if sc.get('target') == 'concurrent':
    return execute_concurrent(sc, sched)
  res = RunResult()
  sim = common.new_sim(sc, sched, max_steps=100000)
  seams.set_queue_size(sc['cap'])
  ao = seams.mods['activeobject']
  hsm = seams.mods['hsm']
  ev = seams.mods['event']
  target = sc['target']
  cap = sc['cap']
  log = []
  state = {'i': -1, 'op': None}
  boundary = set()
  capbox = [cap]      # the capacity the queue under test really has

  def client():
    if target == 'locking-deque':
      q = ao.LockingDeque()
      dq, tokens = q.deque, q.locking_queue
      post_back, post_front = q.append, q.appendleft
    elif target == 'active-object':
      if sc.get('class_cap'):
        a = type('SizedActiveObject', (ao.ActiveObject,), {'QUEUE_SIZE': sc['class_cap']})(name='a')
      else:
        a = ao.ActiveObject(name='a')
      q = a.locking_deque
      if q.deque.maxlen is not None:
        capbox[0] = q.deque.maxlen
      dq, tokens = q.deque, q.locking_queue
      post_back, post_front = a.post_fifo, a.post_lifo
    else:
      c = hsm.HsmWithQueues()
      q = None
      dq, tokens = c.queue, None
      post_back, post_front = c.post_fifo, c.post_lifo
    counter = 0
    for i, op in enumerate(sc['ops']):
      state['i'], state['op'] = i, op
      before = dq.snapshot()
      tk_before = tokens._qsize() if tokens is not None else None
      exc, ret, item = None, None, None
      try:
        if op in ('append', 'appendleft'):
          counter += 1
          item = ev.Event(signal='X', payload='p%d' % counter) if target != 'locking-deque' else 'p%d' % counter
          if len(before) >= capbox[0]:
            boundary.add((op, 'full'))
            sim.probe('post_on_full')
            if op == 'appendleft':
              sim.probe('lifo_on_full')
          (post_back if op == 'append' else post_front)(item)
        elif op == 'pop':
          ret = q.pop()
        elif op == 'popleft':
          ret = q.popleft()
        elif op == 'clear':
          if not before:
            sim.probe('clear_on_empty')
            boundary.add(('clear', 'empty'))
          else:
            boundary.add(('clear', 'nonempty'))
          q.clear()
        elif op == 'len':
          ret = (len(q), q.len())
        elif op == 'consume':
          # what the active object's thread does: take a token without blocking, then the front event
          try:
            q.wait(block=False)
            got = True
          except prims.Empty:
            got = False
          if got:
            ret = ('took', q.popleft() if len(q) else None)
            q.task_done()
          else:
            ret = ('idle', None)
      except kernel.SimAbort:
        raise
      except BaseException as e:  # noqa
        exc = type(e).__name__
      log.append((i, op, before, dq.snapshot(), tk_before, tokens._qsize() if tokens is not None else None, ret, exc, item))

  sim.spawn(client, role='client')
  reason = sim.run()
  if reason == 'budget':
    res.outcome, res.reason = 'inconclusive', 'step budget'
  else:
    stuck = [t for t in sim.threads if t.state != kernel.DONE]
    if stuck:
      res.violate('post-blocked', {'op': state['op'], 'target': target},
                  'op#%d %s on a queue of capacity %d never returned: the caller is parked at %s' % (state['i'], state['op'], cap, stuck[0].desc))
    elif sim.thread_errors:
      common.thread_error_violations(sim, res)
    else:
      judge(dict(sc, cap=capbox[0]), log, res)
  if boundary:
    res.nontrivial.append(hash((kernel._stable(target), cap, tuple(sorted(boundary)))))
  if res.outcome == 'violation' or sched.get('seed', 0) % 499 == 0:
    res.sample = {'target': target, 'capacity': cap, 'ops': sc['ops'][:20],
                  'trace': [{'op': l[1], 'before': [str(x) for x in l[2]], 'after': [str(x) for x in l[3]], 'tokens': l[5], 'exc': l[7]} for l in log[:8]]}
  common.finish(sim, res)
  return res


def judge(sc, log, res):
  cap = sc['cap']
  target = sc['target']
  for i, op, before, after, tk0, tk1, ret, exc, item in log:
    head = 'op#%d %s (target=%s capacity=%d) before=%s after=%s tokens %s->%s' % (
      i, op, target, cap, [str(x) for x in before], [str(x) for x in after], tk0, tk1)
    full = len(before) >= cap
    if len(after) > cap:
      res.violate('over-capacity', {'op': op}, head)
      return
    if op in ('append', 'appendleft'):
      if exc is not None:
        res.violate('post-raised', {'op': op, 'exc': exc, 'full': full}, head + ' raised ' + exc)
        return
      end = 'back' if op == 'append' else 'front'
      if not relaxed_post_ok(before, after, item, end, cap):
        res.violate('post-misplaced', {'op': op, 'full': full},
                    head + ': after a %s post the new event must be %s and the older events keep their order (at most one displaced)' % (
                      'fifo' if end == 'back' else 'lifo', 'last' if end == 'back' else 'first'))
        return
    elif op in ('pop', 'popleft'):
      if not before:
        if exc != 'IndexError':
          res.violate('pop-on-empty', {'op': op, 'exc': exc}, head + ' on an empty queue: expected IndexError like a deque, got %r / %r' % (ret, exc))
          return
      else:
        want = before[-1] if op == 'pop' else before[0]
        rest = before[:-1] if op == 'pop' else before[1:]
        if exc is not None or ret is not want or after != rest:
          res.violate('pop-wrong', {'op': op}, head + ' returned %r (exc %r)' % (ret, exc))
          return
    elif op == 'clear':
      if exc is not None:
        res.violate('clear-raised', {'exc': exc, 'empty': not before}, head + ': clear() raised ' + exc)
        return
      if after or (tk1 is not None and tk1 != 0):
        res.violate('clear-incomplete', {}, head + ': clear() must leave no event and no token')
        return
    elif op == 'len':
      if exc is not None or ret != (len(before), len(before)):
        res.violate('len-wrong', {}, head + ' returned %r (exc %r)' % (ret, exc))
        return
    elif op == 'consume':
      if exc is not None:
        res.violate('consume-raised', {'exc': exc}, head + ' raised ' + exc)
        return
    if tk1 is not None and exc is None:
      if tk1 < len(after):
        res.violate('token-lost', {'op': op}, head + ': fewer wake-up tokens than pending events (a consumer would sleep on a non-empty queue)')
        return
      if target == 'active-object' and tk1 != len(after):
        # an object that was never started: nobody took a token, so there is exactly one per pending event
        res.violate('token-mismatch', {'op': op, 'target': 'active-object'}, head + ': an idle, never-started active object must hold one wake-up token per pending event')
        return
      if sc.get('consumer_only') and tk1 != len(after):
        res.violate('token-mismatch', {'op': op}, head + ': one token per pending event expected when events are only taken through the consumer protocol')
        return
