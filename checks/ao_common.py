"""shared by the active-object-world checks"""
import collections

from sim import kernel, seams
from worlds import common


def where(sim):
  return [(t.name, kernel.STATE_NAMES[t.state], t.desc) for t in sim.threads if t.state != kernel.DONE]


def base_judge(run, sim, reason, res, allow_client_exc=(), budget='inconclusive'):
  """common failure classification; returns True if the run can be judged further"""
  if reason == 'budget':
    if budget == 'inconclusive':
      res.outcome, res.reason = 'inconclusive', 'step budget'
    return False
  errs = [e for e in run.errors if e[3] not in allow_client_exc]
  if errs:
    k, i, op, typ, tb = errs[0]
    res.violate('call-raised', {'op': op[0], 'exc': typ}, 'client %s op#%d %s raised %s\n%s' % (k, i, op, typ, tb))
    return False
  if run.handler_errors:
    oi, op, typ, tb = run.handler_errors[0]
    res.violate('handler-call-raised', {'op': op, 'exc': typ}, 'a %s made by a handler of %s raised %s\n%s' % (op, run.names[oi], typ, tb))
    return False
  if sim.thread_errors:
    common.thread_error_violations(sim, res)
    return False
  stuck = [t for t in sim.threads if t.role in ('client', 'main') and t.state != kernel.DONE]
  if stuck and reason == 'quiescent':
    res.violate('call-blocked', {'at': stuck[0].desc.split(':')[0]},
                'nothing can run but a client is parked at %s; threads: %s' % (stuck[0].desc, where(sim)))
    return False
  return True


def replay_queue(run, oi):
  """re-run the linearised operation history of the pending-event deque of object oi on a
  model deque; returns dict(ops=[...], displaced=[uids], final=[uids], pops=[(seq, thread, uid)],
  adds=[(seq, thread, op, uid, time_us, index_after, len_before)])"""
  return replay_ops(run.queue_ops(oi), run.objs[oi].locking_deque.deque.maxlen)


def replay_ops(ops, cap):
  d = collections.deque(maxlen=cap)
  displaced, pops, adds = [], [], []
  # the queue as the API defines it: posts take effect when the event is stored, the
  # consumer takes the front; internal rotations are not part of it
  abstract = []
  not_front = []
  for seq, tn, op, payload, t_us in ops:
    if op == 'popleft':
      if abstract and (abstract[0] is not payload and abstract[0] != payload):
        not_front.append((seq, tn, payload, list(abstract)))
      if payload in abstract:
        abstract.remove(payload)
    elif op == 'pop':
      if payload in abstract:
        abstract.reverse(); abstract.remove(payload); abstract.reverse()
    if op == 'append':
      n = len(d)
      if cap is not None and n >= cap:
        displaced.append(d[0])
      d.append(payload)
      adds.append((seq, tn, op, payload, t_us, len(d) - 1, n))
      abstract = list(d)
    elif op == 'appendleft':
      n = len(d)
      if cap is not None and n >= cap:
        displaced.append(d[-1])
      d.appendleft(payload)
      adds.append((seq, tn, op, payload, t_us, 0, n))
      abstract = list(d)
    elif op == 'popleft':
      if d:
        d.popleft()
      pops.append((seq, tn, payload))
    elif op == 'pop':
      if d:
        d.pop()
      pops.append((seq, tn, payload))
    elif op == 'rotate':
      d.rotate(payload)
    elif op == 'clear':
      displaced.extend(d)
      d.clear()
      abstract = []
  return {'displaced': displaced, 'final': list(d), 'pops': pops, 'adds': adds, 'not_front': not_front}


def timer_appends(run, oi):
  """appends to object oi's queue made by timer threads: {thread name: [(seq, op, uid, time_us)]}"""
  out = {}
  for seq, tn, op, payload, t_us in run.queue_ops(oi):
    if tn.startswith('timer') and op in ('append', 'appendleft'):
      out.setdefault(tn, []).append((seq, op, payload, t_us))
  return out


def source_appends(run, oi):
  """what each timed source put into object oi's queue, told by the event it posts (every source has its own
  event): {payload uid: [(seq, op, uid, time_us, thread name)]}.  Which thread makes the posting - one thread per
  source, a chain of timers, the caller for the first one - is the implementation's business."""
  out = {}
  src_uids = set(s['uid'] for s in run.sources if s['obj'] == oi)
  for seq, tn, op, payload, t_us in run.queue_ops(oi):
    if op in ('append', 'appendleft') and payload in src_uids:
      out.setdefault(payload, []).append((seq, op, payload, t_us, tn))
  return out


def consumers_by_queue(sim):
  """live consumer threads grouped by the queue object they serve"""
  groups = {}
  for t in sim.threads:
    if t.role == 'consumer' and t.state != kernel.DONE and t.user is not None:
      q = t.user._args[2] if len(t.user._args) >= 3 else None
      groups.setdefault(id(q), []).append(t.name)
  return groups
