"""C04 - an active object dispatches every posted event exactly once, in queue order."""
import random

from sim import kernel, seams
from sim.runner import RunResult
from worlds import common, ao as aw
from checks import ao_common as ac

PID = 'C04'
SCHEDULE_DEPENDENT = True
RULE = ('1-2 real ActiveObjects (consumer threads), the real fabric and writer, 1-5 client threads posting with '
        'post_fifo/post_lifo, finite timed sources (timer threads), publications delivered by the fabric threads and posts '
        'made by the objects\' own handlers; seeded scheduler (sticky walk, PCT depth <= 3, starvation of the consumer or a '
        'poster; sync/line/bytecode granularity inside LockingDeque.append/appendleft, run_event, next_rtc); capacity 500 '
        '(no-overflow stratum) or 3-6 (overflow stratum: displaced events are accounted for). Oracle over the linearised '
        'history of the pending-event deque: every post_fifo is an append and every post_lifo an appendleft of that very '
        'event; the dispatch log equals the sequence of events the consumer took from the front; nothing is dispatched that '
        'was not posted, nothing twice; at quiescence the deque is empty, posted minus displaced equals dispatched, the '
        'consumer is not parked on a non-empty deque (lost wake-up), and there is one consumer thread per object. '
        'Non-trivial = two threads touched the pending queue within one consumer iteration; distinct = distinct '
        '(capacity class, interleaving of add/take events by thread role) tuples.')
ASSUMPTIONS = ['only events posted after start_at returned and with no stop are obligations',
               'a run that exhausts its step budget is inconclusive for C04 (counted, never a pass and never a violation)']
PROBES = ['post_during_consumer_step', 'overflow_displaced_event']
PLAN = {
  'quick': {'strata': {'no-overflow': 2500, 'overflow': 1500}, 'wall_s': 300, 'chunk': 50, 'min_conclusive': 800},
  'thorough': {'strata': {'no-overflow': 70000, 'overflow': 40000}, 'wall_s': 900, 'chunk': 100, 'min_conclusive': 800},
}


def generate(seed, stratum, tier):
  rng = random.Random(seed)
  nobj = rng.choice([1, 1, 2])
  objs = aw.default_objects(nobj, spied=True)
  for o in objs:
    o['spied'] = rng.random() < 0.8
    o['instrumented'] = rng.random() < 0.75     # ActiveObject(instrumented=False): no spy, no trace
    if rng.random() < 0.3:
      o['live_spy'], o['live_trace'] = rng.choice([(True, False), (False, True), (True, True)])    # through the writer thread
    if stratum != 'no-overflow' and rng.random() < 0.3:
      o['class_cap'] = rng.choice([8, 12, 20])      # the object's class declares a larger QUEUE_SIZE of its own
    if rng.random() < 0.3:
      # a step that arms a (finite) timed source or cancels the sources of a signal while sources are firing
      o.setdefault('react', {})['SB'] = [rng.choice([{'op': 'timed', 'sig': 'TH', 'period': 0.1, 'times': 2, 'deferred': rng.choice([True, False]), 'kind': 'fifo', 'id': 3, 'max': 2},
                                                     {'op': 'cancel_events', 'sig': 'TH', 'id': 4, 'max': 3}])]
    if rng.random() < 0.4:
      o['react'] = {'SA': [{'op': rng.choice(['post_fifo', 'post_lifo']), 'sig': rng.choice(['SB', 'SC']), 'id': 1, 'max': 2}]}
  cap = 500 if stratum == 'no-overflow' else rng.choice([3, 4, 6])
  big = common.deep(rng)
  nclients = common.span(rng, 1, 6, big)
  clients = [[] for _ in range(nclients)]
  clients[0] += [['start', i] for i in range(nobj)]
  if rng.random() < 0.4:
    clients[0].append(['subscribe', rng.randrange(nobj), 'SD', 'fifo'])
    clients[0].append(['await_idle'])
  slot = 0
  extra = 2 * cap if (stratum != 'no-overflow' and rng.random() < 0.5) else 0     # keep a small queue full for a while
  for _ in range(common.span(rng, 2, 14, big, 4) + extra):
    c = rng.randrange(nclients)
    r = rng.random()
    oi = rng.randrange(nobj)
    if r < 0.65:
      clients[c].append([rng.choice(['post_fifo', 'post_fifo', 'post_lifo']), oi, rng.choice(['SA', 'SB', 'SC'])])
    elif r < 0.8:
      clients[c].append(['timed', oi, rng.choice(['fifo', 'lifo']), 'T%d' % slot, rng.choice([0.1, 0.25]), rng.randrange(1, 4),
                         rng.choice([True, False, None]), slot])
      slot += 1
    elif r < 0.92:
      clients[c].append(['publish', oi, 'SD', rng.choice([None, 1])])
    else:
      clients[c].append(['sleep', rng.choice([0.05, 0.1, 0.3])])
  for c in range(1, nclients):
    clients[c].insert(0, ['sleep', 0.001])
  victims = [rng.choice(['consumer', 'client'])]
  return {'objects': objs, 'queue_size': cap, 'clients': clients, 'stratum': stratum, 'stalls': common.draw_stalls(rng, 1500),
          'sched': common.draw_sched(rng, grans=('sync', 'line', 'opcode'), weights=(1, 3, 2), expected_steps=1500, victims=victims)}


def shrink_candidates(sc):
  if sc.get('stalls'):
    yield dict(sc, stalls={})
  cl = sc['clients']
  for i, s in enumerate(cl):
    for j in range(len(s) - 1, -1, -1):
      if s[j][0] == 'start':
        continue
      yield dict(sc, clients=cl[:i] + [s[:j] + s[j + 1:]] + cl[i + 1:])
  if len(cl) > 1:
    for i in range(1, len(cl)):
      yield dict(sc, clients=cl[:i] + cl[i + 1:])
  if any(o.get('react') for o in sc['objects']):
    yield dict(sc, objects=[dict(o, react={}) for o in sc['objects']])
  if sc['sched'].get('gran') != 'sync':
    yield dict(sc, sched=dict(sc['sched'], gran='line' if sc['sched'].get('gran') == 'opcode' else 'sync'))


def execute(sc, sched):
  res = RunResult()
  run, sim, reason = aw.run_ao(sc, sched, max_steps=250000)
  try:
    if ac.base_judge(run, sim, reason, res):
      judge(sc, run, sim, res)
    reach(sc, run, sim, res)
    if res.outcome == 'violation' or sched.get('seed', 0) % 499 == 0:
      res.sample = {'capacity': sc['queue_size'], 'clients': sc['clients'], 'sched': sc['sched'],
                    'queue_ops_ao1': [(tn, op, str(p)) for _, tn, op, p, _ in (run.queue_ops(0)[:24] if run.objs else [])],
                    'dispatched': [(run.names[d[1]], d[2], d[3]) for d in run.dispatch[:16]], 'outcome': res.outcome}
  finally:
    common.finish(sim, res)
  return res


def judge(sc, run, sim, res):
  for oi in range(len(run.objs)):
    name = run.names[oi]
    q = ac.replay_queue(run, oi)
    posted = {u: p for u, p in run.posts.items() if p['obj'] == oi}
    # every post shows up as the right kind of add of that very event
    adds_by_uid = {}
    for a in q['adds']:
      adds_by_uid.setdefault(a[3], []).append(a)
    for uid, p in sorted(posted.items()):
      if p['end'] is None:
        continue
      mine = adds_by_uid.get(uid, [])
      # where the event landed is what counts (front for lifo, back for fifo), not which deque method was used
      # (with nothing pending both ends are the same place, so either deque method is right then)
      want = 'append' if p['kind'] == 'fifo' else 'appendleft'
      ok = len(mine) == 1 and (mine[0][2] == want or mine[0][6] == 0)
      if not ok:
        res.violate('post-not-queued-as-posted', {'kind': p['kind'], 'n': len(mine)},
                    '%s: post_%s of %s (%s) appears in the queue history as %s (thread, method, index after, pending before)' % (
                      name, p['kind'], uid, p['sig'], [(m[1], m[2], m[5], m[6]) for m in mine]))
        return
    if q['not_front']:
      seq, tn, got, queue = q['not_front'][0]
      res.violate('took-not-the-front', {'overflow': sc['queue_size'] < 500},
                  '%s: %s took %s while the pending events were %s (front first): the step must take the front event' % (name, tn, got, queue))
      return
    # the dispatch log is what the consumer took from the front, in that order
    took = [u for _, tn, u in q['pops'] if tn.startswith('consumer') and u is not None]
    disp = [d[3] for d in run.dispatch if d[1] == oi]
    if disp != took:
      k = 0
      while k < min(len(disp), len(took)) and disp[k] == took[k]:
        k += 1
      res.violate('dispatch-order', {}, '%s: events taken from the front of the queue %s, events dispatched to the chart %s (first difference at %d)' % (name, took, disp, k))
      return
    seen = set()
    known = set(posted) | set(s['uid'] for s in run.sources if s['obj'] == oi) | set(run.pubs)
    times = {s_['uid']: s_['times'] for s_ in run.sources if s_['obj'] == oi}
    count = {}
    for u in disp:
      count[u] = count.get(u, 0) + 1
      limit = times.get(u, 1) or 10 ** 9     # a timed source posts its one event object `times` times
      if count[u] > limit:
        res.violate('dispatched-twice', {'timed': u in times}, '%s dispatched %s %d times (posted %s time(s))' % (name, u, count[u], limit))
        return
      if u not in known:
        res.violate('dispatched-unposted', {}, '%s dispatched %s which nobody posted' % (name, u))
        return
    # timed sources post the same event object several times: those repeat legitimately
    if q['final']:
      ctl = run.consumer_ctl(oi)
      parked = ctl is not None and ctl.state == kernel.BLOCKED and ctl.desc.startswith('get:')
      res.violate('lost-wakeup' if parked else 'queue-not-empty-at-quiescence', {},
                  '%s: nothing can run, yet %d event(s) %s are pending; consumer: %s; tokens: %d' % (
                    name, len(q['final']), q['final'], (ctl.desc if ctl is not None else None), run.objs[oi].locking_deque.locking_queue._qsize()))
      return
    added = [a[3] for a in q['adds'] if a[3] is not None]
    disp_multi = list(disp)
    for u in q['displaced']:
      if u in added:
        added.remove(u)
    if sorted(map(str, added)) != sorted(map(str, took)):
      missing = [u for u in added if u not in took]
      res.violate('posted-not-dispatched', {}, '%s: queued (minus displaced) %s but taken/dispatched %s; missing %s' % (name, added, took, missing))
      return
  # run-to-completion steps of one object never overlap: they all run on its one thread
  for oi in range(len(run.objs)):
    threads = sorted(set(d[4] for d in run.dispatch if d[1] == oi))
    if len(threads) > 1:
      res.violate('steps-on-several-threads', {}, '%s ran steps on %s' % (run.names[oi], threads))
      return
  groups = ac.consumers_by_queue(sim)
  for qid, names in groups.items():
    if len(names) > 1:
      res.violate('two-consumers', {}, 'two live consumer threads serve one active object: %s' % names)
      return


def reach(sc, run, sim, res):
  for oi in range(len(run.objs)):
    ops = run.queue_ops(oi)
    sigs = []
    hit = False
    last_take = None
    for seq, tn, op, payload, t in ops:
      role = tn.split('#')[0]
      if op == 'popleft' and role == 'consumer':
        last_take = seq
        sigs.append(0)
      elif op in ('append', 'appendleft'):
        sigs.append((1 if op == 'append' else 2, kernel._stable(role)))
    # a post landed while the consumer was between taking an event and waiting again
    disp_seqs = [d[0] for d in run.dispatch if d[1] == oi]
    for seq, tn, op, payload, t in ops:
      if op in ('append', 'appendleft') and not tn.startswith('consumer'):
        for a, b in zip(disp_seqs, disp_seqs[1:] + [10 ** 12]):
          pass
    roles_between = set()
    prev_pop = None
    for seq, tn, op, payload, t in ops:
      if op == 'popleft':
        if len(roles_between) >= 2:
          hit = True
        roles_between = set()
      elif op in ('append', 'appendleft'):
        roles_between.add(tn)
    if hit:
      sim.probe('post_during_consumer_step')
      res.nontrivial.append(hash((sc['queue_size'] >= 500, tuple(sigs[:60]))))
    if ac.replay_queue(run, oi)['displaced']:
      sim.probe('overflow_displaced_event')
