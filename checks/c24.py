"""C24 - impossible initial transitions raise instead of hanging."""
import random

from checks import chart_common as cc
from models import chart_oracles as co
from models.refhsm import RefHSM, FaultReached
from worlds import chartgen
from sim import kernel

PID = 'C24'
SCHEDULE_DEPENDENT = False
RULE = ('well-formed seeded charts with exactly one injected malformation - an initial transition that targets an '
        'ancestor, a sibling, an unrelated state or the state itself, or one handler that returns no status for one '
        'user signal, or one handler without its else clause (no status and no enclosing state for anything it has no branch for; led into directly, as an ancestor of the target, or by its parent\'s initial transition) - reached (i) by start_at and (ii) by a later event that leads into the faulty state, on plain, '
        'instrumented, queued and active-object hosts; the reference model predicts which call reaches the '
        'malformation. Oracle: that call raises HsmTopologyException (in an active object: its thread ends with it) '
        'within the step budget of the run (30000 pre-emption points; a correct exit takes < 2000) - exhausting the '
        'budget is reported as a hang (the kernel\'s budget abort is what lets the check survive an infinite loop) - '
        'and no entry/exit action runs after the faulty initial transition was taken. Non-trivial = the malformation '
        'was reached; distinct = distinct (malformation kind, how reached, host, depth of the faulty state) tuples.')
ASSUMPTIONS = ['bounded liveness: "raises instead of hanging" is decided by a step budget 15x the largest fault-free run of these sizes',
               'no schedule dimension']
PROBES = ['fault_reached']
PLAN = {
  'quick': {'strata': {'malformed': 10000}, 'wall_s': 300, 'chunk': 100, 'min_conclusive': 500},
  'thorough': {'strata': {'malformed': 100000}, 'wall_s': 900, 'chunk': 250, 'min_conclusive': 500},
}
KINDS = ['init-ancestor', 'init-sibling', 'init-unrelated', 'init-self', 'none-status', 'no-else']
COMBOS = [('plain', 'closure'), ('plain', 'closure-spied'), ('instrumented', 'closure'), ('instrumented', 'closure-spied'),
          ('queued', 'closure'), ('queued', 'closure-spied'), ('ao', 'closure-spied'), ('ao', 'closure')]
BUDGET = 30000


def generate(seed, stratum, tier):
  rng = random.Random(seed)
  for attempt in range(50):
    spec = chartgen.gen_spec(rng, nstates=rng.randrange(2, 11), p_react=0.3)
    sp = chartgen.Spec(spec)
    F = rng.choice(sp.order)
    kind = rng.choice(KINDS)
    st = sp.states[F]
    target = None
    if kind == 'init-ancestor':
      anc = sp.ancestors(F)[1:]
      if not anc:
        continue
      target = rng.choice(anc)
    elif kind == 'init-sibling':
      sib = [n for n in sp.order if n != F and sp.parent[n] == sp.parent[F]]
      if not sib:
        continue
      target = rng.choice(sib)
    elif kind == 'init-unrelated':
      un = [n for n in sp.order if n != F and not sp.is_ancestor(n, F) and not sp.is_ancestor(F, n)]
      if not un:
        continue
      target = rng.choice(un)
    elif kind == 'init-self':
      target = F
    via, T = None, F
    if kind == 'no-else':
      # F gives no status for anything it has no branch for (so also when asked for its enclosing state); it is led into
      # directly, as an ancestor of the target, or through the initial transition of its parent
      below = [n for n in sp.order if n != F and sp.is_ancestor(F, n)]
      via = rng.choice(['direct'] + (['below'] if below else []) + (['init'] if sp.parent[F] is not None else []))
      if via == 'below':
        T = rng.choice(below)
      elif via == 'init':
        P = sp.states[sp.parent[F]]
        P['init'] = rng.choice([F] + below)
        P['init_clause'] = True
        T = P['name']
    reach = rng.choice(['start', 'dispatch']) if kind != 'none-status' else 'dispatch'
    # fresh signals nobody else reacts to
    spec['signals'] = spec['signals'] + ['SZ', 'SN']
    for s in spec['states']:
      if s['parent'] is None:
        s['react']['SZ'] = {'kind': 'trans', 'target': T, 'fx': []}
    malform = {'kind': kind, 'state': F}
    if via:
      malform['via'] = via
    if kind == 'none-status':
      malform = {'kind': 'none-status', 'state': F, 'signal': 'SN'}
      model = {'kind': 'none-status', 'state': F, 'signal': 'SN'}
    elif kind == 'no-else':
      model = {'kind': 'enter', 'state': F}
    else:
      st['init'] = target
      st['init_clause'] = True
      st['fx'].pop('init', None)
      model = {'kind': 'init', 'state': F}
    # start state
    if reach == 'start':
      start = T
      ops = []
    else:
      good = []
      for g in sp.order:
        try:
          RefHSM(spec, model).start(g)
          good.append(g)
        except FaultReached:
          pass
      if not good:
        continue
      start = rng.choice(good)
      pre = cc.gen_history(rng, spec, rng.randrange(0, 4))
      pre = [o for o in pre if o[1] not in ('SZ', 'SN')]
      ops = pre + [['ev', 'SZ']]
      if kind == 'none-status':
        ops.append(['ev', 'SN'])
    host, build = rng.choice(COMBOS)
    return {'spec': spec, 'host': host, 'build': build, 'start': start, 'ops': ops,
            'instrumented': True, 'live_spy': False, 'live_trace': False,
            'malform': malform, 'malform_model': model, 'reach': reach,
            'sched': {'gran': 'line', 'policy': 'sticky', 's': 1.0}}
  raise RuntimeError('no malformed scenario found')


def shrink_candidates(sc):
  ops = sc['ops']
  for i in range(len(ops) - 1, -1, -1):
    if ops[i][1] not in ('SZ', 'SN'):
      yield dict(sc, ops=ops[:i] + ops[i + 1:])
  if sc['host'] == 'ao':
    yield dict(sc, host='queued')
  if sc['host'] == 'queued':
    yield dict(sc, host='instrumented')


def sigbase(sc):
  out = {'kind': sc['malform']['kind'], 'reach': sc['reach']}
  if sc['malform'].get('via'):
    out['via'] = sc['malform']['via']
  return out


def on_budget(run, res):
  sc = run.sc
  # which op was in progress?
  k = len(run.steps)
  if run.fault_op is not None and k == run.fault_op:
    res.violate('hang', sigbase(sc),
                'op#%d (%s) reached the malformation %s and did not return within %d pre-emption points (host=%s build=%s)' % (
                  k, 'start_at' if k == 0 else sc['ops'][k - 1], sc['malform'], BUDGET, sc['host'], sc['build']))
  else:
    res.outcome = 'inconclusive'
    res.reason = 'step budget before the malformation was reached'


def judge(run, res):
  sc = run.sc
  if run.fault_op is None:
    return   # the history never reached the malformation: trivial run
  run.sim.probe('fault_reached')
  res.nontrivial[:] = [hash((sc['malform']['kind'], sc['malform'].get('via'), sc['reach'], sc['host'], run.spec.depth(sc['malform']['state'])))]
  k = run.fault_op
  if k >= len(run.steps):
    res.outcome = 'inconclusive'
    res.reason = 'history ended before the faulty op'
    return
  ob = run.steps[k]
  exc = ob.exc
  if exc is None and sc['host'] in ('ao', 'factory') and k > 0:
    for name, typ, msg, tb in run.sim.thread_errors:
      if name.startswith('consumer'):
        exc = typ
  if exc is None:
    res.violate('no-exception', sigbase(sc), 'op#%d %s reached the malformation %s but returned normally; chart now in %s (host=%s build=%s)' % (
      k, ob.op, sc['malform'], ob.state, sc['host'], sc['build']))
    return
  if exc != 'HsmTopologyException':
    res.violate('wrong-exception', dict(sigbase(sc), exc=exc), 'op#%d %s raised %s instead of HsmTopologyException\n%s' % (k, ob.op, exc, ob.tb))
    return
  if sc['malform']['kind'] == 'no-else':
    pass
  elif sc['malform']['kind'] != 'none-status':
    F = sc['malform']['state']
    after = False
    for r in ob.recs:
      if r[0] == 'init' and r[1] == F:
        after = True
        continue
      if after and (r[0] in ('entry', 'exit') or (r[0] == 'call' and r[2] in ('ENTRY_SIGNAL', 'EXIT_SIGNAL'))):
        res.violate('wrong-states-entered', sigbase(sc), 'after taking the impossible initial transition of %s the processor still ran %s before raising' % (F, r))
        return
  else:
    F = sc['malform']['state']
    after = False
    for r in ob.recs:
      if r[0] == 'call' and r[1] == F and r[2] == 'SN':
        after = True
        continue
      if after and r[0] in ('entry', 'exit', 'init', 'trans', 'hook'):
        res.violate('wrong-states-entered', sigbase(sc), 'after %s returned no status the processor still ran %s' % (F, r))
        return


def execute(sc, sched):
  res = cc.run_and_judge(sc, sched, [judge], max_steps=BUDGET, budget_is=on_budget, keep_run=False,
                         tolerate_thread_errors=True)
  return res
