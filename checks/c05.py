"""C05 - posting to an active object always returns; the system reaches quiescence."""
import random

from sim import kernel, seams
from sim.runner import RunResult
from worlds import common, ao as aw

PID = 'C05'
SCHEDULE_DEPENDENT = True
RULE = ('one real ActiveObject with a small pending-event capacity (2-6, so the bounded token queue really fills) or the '
        'default 500; 2-5 client threads each making 1-4 post_fifo/post_lifo calls, racing each other, the consumer thread and '
        'posts made by the object\'s own handlers; scheduler: an arbitrary prefix (sticky walk / PCT / starvation of the '
        'consumer, line or bytecode granularity inside LockingDeque.append/appendleft and run_event) of 50-600 choice points, '
        'then a fair suffix (round robin with a drawn quantum 1-7, or uniform random). Oracle: (a) deadlock - nothing can run '
        'and a poster has not returned; (b) bounded progress - every poster has returned and the object is quiescent within '
        '120000 pre-emption points (fault-free runs of these sizes need < 6000). Non-trivial = two posters were inside a post '
        'at the same time, or a poster overlapped a consumer step; distinct = distinct (capacity, interleaving of post '
        'begin/end and step events) tuples.')
ASSUMPTIONS = ['bounded liveness under a fair suffix: exhausting the budget is reported as a violation of the stated bound (no state-cycle confirmation is attempted)']
PROBES = ['concurrent_posters', 'token_queue_full']
PLAN = {
  'quick': {'strata': {'posters': 3000, 'timed-posters': 1200}, 'wall_s': 300, 'chunk': 50, 'min_conclusive': 500},
  'thorough': {'strata': {'posters': 80000, 'timed-posters': 40000}, 'wall_s': 900, 'chunk': 100, 'min_conclusive': 500},
}
BUDGET = 120000


def generate(seed, stratum, tier):
  rng = random.Random(seed)
  cap = rng.choice([2, 3, 3, 4, 6, 500])
  big = common.deep(rng)
  nclients = common.span(rng, 2, 6, big)
  clients = []
  for c in range(nclients):
    clients.append([[rng.choice(['post_fifo', 'post_fifo', 'post_lifo']), 0, rng.choice(aw.USER_SIGNALS[:3])]
                    for _ in range(common.span(rng, 1, 5, big, 3))])
  clients[0].insert(0, ['start', 0])
  for c in range(1, nclients):
    clients[c].insert(0, ['sleep', 0.001])
  objs = aw.default_objects(1, spied=rng.random() < 0.7)
  objs[0]['instrumented'] = rng.random() < 0.75
  if cap != 500 and rng.random() < 0.3:
    objs[0]['class_cap'] = rng.choice([8, 12, 20])      # the object's class declares a larger QUEUE_SIZE of its own
  if rng.random() < 0.4:
    objs[0]['react'] = {'SA': [{'op': rng.choice(['post_fifo', 'post_lifo']), 'sig': 'SB', 'id': 1, 'max': 2}]}
  horizon = None
  if stratum == 'timed-posters':
    # timed sources are posters too (their threads post while holding the table lock of the sources), and the object's
    # handlers arm and cancel sources during steps: every post - theirs and the clients' - must still return
    p = rng.choice([0.01, 0.05])
    for slot in range(rng.randrange(1, 3)):
      clients[0].insert(1 + slot, ['timed', 0, rng.choice(['fifo', 'lifo']), 'T%d' % slot, p, rng.choice([3, 5, 8]), rng.choice([True, False]), slot])
    react = objs[0].setdefault('react', {})
    react.setdefault('SB', []).append({'op': rng.choice(['cancel_events', 'timed', 'timed']), 'sig': rng.choice(['T0', 'T1']) , 'period': p, 'times': 2,
                                       'deferred': rng.choice([True, False]), 'kind': 'fifo', 'id': 7, 'max': 3})
    react.setdefault('T0', []).append({'op': rng.choice(['cancel_events', 'post_fifo']), 'sig': rng.choice(['T1', 'SC']), 'id': 8, 'max': 2})
    for c in range(1, nclients):
      clients[c].append(['sleep', p * rng.choice([1, 2, 3])])
      clients[c].append([rng.choice(['post_fifo', 'post_lifo']), 0, 'SB'])
  first = common.draw_sched(rng, grans=('line', 'opcode'), weights=(2, 1), expected_steps=400, victims=['consumer'])
  gran = first.pop('gran')
  then = {'policy': 'rr', 'quantum': rng.randrange(1, 8)} if rng.random() < 0.6 else {'policy': 'sticky', 's': 0.0}
  return {'objects': objs, 'queue_size': cap if stratum != 'timed-posters' else max(cap, 6), 'clients': clients, 'stalls': common.draw_stalls(rng, 400, rate=0.3), 'horizon_s': horizon,
          'sched': {'gran': gran, 'policy': 'phased', 'first': first, 'switch_at': rng.choice([50, 150, 300, 600]), 'then': then}}


def shrink_candidates(sc):
  if sc.get('stalls'):
    yield dict(sc, stalls={})
  cl = sc['clients']
  if len(cl) > 2:
    for i in range(1, len(cl)):
      yield dict(sc, clients=cl[:i] + cl[i + 1:])
  for i, s in enumerate(cl):
    for j in range(len(s) - 1, -1, -1):
      if s[j][0] in ('start', 'sleep'):
        continue
      if sum(1 for o in s if o[0].startswith('post')) > 1:
        yield dict(sc, clients=cl[:i] + [s[:j] + s[j + 1:]] + cl[i + 1:])
  if sc['objects'][0].get('react'):
    yield dict(sc, objects=[dict(sc['objects'][0], react={})])
  if sc['sched'].get('gran') == 'opcode':
    yield dict(sc, sched=dict(sc['sched'], gran='line'))


def where(sim):
  return [(t.name, kernel.STATE_NAMES[t.state], t.desc) for t in sim.threads if t.state != kernel.DONE]


def execute(sc, sched):
  res = RunResult()
  run, sim, reason = aw.run_ao(sc, sched, max_steps=BUDGET, horizon_s=sc.get('horizon_s'))
  try:
    o = run.objs[0] if run.objs else None
    posters = [t for t in sim.threads if t.role == 'client']
    if run.errors:
      k, i, op, typ, tb = run.errors[0]
      res.violate('post-raised', {'op': op[0], 'exc': typ}, 'client %d op#%d %s raised %s\n%s' % (k, i, op, typ, tb))
    elif reason == 'budget':
      ld = o.locking_deque if o is not None else None
      res.violate('no-progress', {'posters_done': all(t.state == kernel.DONE for t in posters)},
                  'not quiescent after %d pre-emption points under a fair suffix (capacity %s): pending events %s, tokens %s; threads: %s' % (
                    BUDGET, sc['queue_size'], ld.deque.real_len() if ld is not None else '?', ld.locking_queue._qsize() if ld is not None else '?', where(sim)))
    elif any(t.state != kernel.DONE for t in posters) or any(t.role == 'timer' and t.state == kernel.BLOCKED and not t.desc.startswith('sleep') for t in sim.threads):
      stuck = [t for t in posters if t.state != kernel.DONE] or [t for t in sim.threads if t.role == 'timer' and t.state == kernel.BLOCKED]
      res.violate('deadlock', {'at': stuck[0].desc.split(':')[0]},
                  'nothing can run but %d poster(s) have not returned (capacity %s): %s' % (len(stuck), sc['queue_size'], where(sim)))
    elif sim.thread_errors:
      common.thread_error_violations(sim, res)
    elif o is not None and o.locking_deque.deque.real_len() != 0:
      # quiescence means: every poster finished and the consumer waits on an EMPTY queue
      ctl = o.thread._ctl if o.thread is not None else None
      res.violate('quiescent-with-pending-events', {'consumer': (ctl.desc.split(':')[0] if ctl is not None and ctl.state != kernel.DONE else 'dead')},
                  'every poster has returned and nothing can run, but %d event(s) are still pending (tokens: %d); threads: %s' % (
                    o.locking_deque.deque.real_len(), o.locking_deque.locking_queue._qsize(), where(sim)))
    # reach
    ev_order = []
    open_posts = set()
    overlap = False
    for seq, tn, kind, label, op, detail in sim.history:
      if kind == 'ao' and detail[1] in ('post_fifo', 'post_lifo'):
        if op == 'begin':
          if open_posts:
            overlap = True
          open_posts.add(tn)
        else:
          open_posts.discard(tn)
        ev_order.append((op == 'begin', kernel._stable(tn)))
      elif kind == 'disp':
        if open_posts:
          overlap = True
        ev_order.append((2, 0))
    if overlap:
      sim.probe('concurrent_posters')
      res.nontrivial.append(hash((sc['queue_size'], tuple(ev_order))))
    if run.token_queue_full_seen:
      sim.probe('token_queue_full')
    if res.outcome == 'violation' or sched.get('seed', 0) % 499 == 0:
      res.sample = {'capacity': sc['queue_size'], 'clients': sc['clients'], 'sched': sc['sched'],
                    'dispatched': [(d[2], d[3]) for d in run.dispatch[:20]], 'steps': sim.steps, 'outcome': res.outcome}
  finally:
    common.finish(sim, res)
  return res
