"""C21 - live spy/trace output emits every line once, in order, whatever the clock says."""
import random

from checks import chart_common as cc
from models import chart_oracles as co

PID = 'C21'
SCHEDULE_DEPENDENT = False
RULE = ('seeded instrumented charts with live_spy and/or live_trace switched on, on queued hosts (callbacks inline) and '
        'active objects (callbacks through the writer thread), under injected clock behaviours: fine (strictly '
        'increasing), coarse (1 ms / 15.6 ms / 1 s resolution: consecutive steps share a timestamp), frozen, and '
        'backward/forward jumps; oracle: the sequence handed to the live-spy callback equals the spy lines the steps '
        'produced, and the live-trace callback is called exactly once per new trace record, in order, with a line '
        'describing that record. Non-trivial = a run in which two consecutive trace records carry equal timestamps or the '
        'clock jumped; distinct = distinct (host, clock kind, live flags, number of transitions bucket) tuples.')
ASSUMPTIONS = ['the clock is the injected fault; in active-object runs the client waits until the object and the writer thread are idle before comparing']
PROBES = ['equal_consecutive_timestamps']
PLAN = {
  'quick': {'strata': {'fine-clock': 1500, 'faulty-clock': 4000}, 'wall_s': 90, 'chunk': 100, 'min_conclusive': 1000},
  'thorough': {'strata': {'fine-clock': 30000, 'faulty-clock': 100000}, 'wall_s': 900, 'chunk': 250, 'min_conclusive': 10000},
}
ORACLES = [co.check_live]


def generate(seed, stratum, tier):
  rng = random.Random(seed)
  host = rng.choice(['queued', 'queued', 'ao'])
  build = rng.choice(['closure-spied', 'template'])
  ops, weights = (('ev', 'rtc', 'post_fifo', 'circuit'), (6, 2, 2, 1)) if host == 'queued' else (('ev',), None)
  sc = cc.gen_chart_scenario(rng, combos=[(host, build)], ops=ops, weights=weights, nops=(3, 25), flags=False,
                             spec_kw={'nstates': rng.randrange(2, 9), 'p_react': 0.7})
  sc['live_spy'], sc['live_trace'] = rng.choice([(True, True), (True, False), (False, True), (False, True)])
  if stratum == 'fine-clock':
    sc['clock'] = {'kind': 'fine'}
  else:
    kind = rng.choice(['coarse', 'coarse', 'frozen', 'jump'])
    sc['clock'] = {'kind': kind, 'q_us': rng.choice([1000, 15600, 1000000])}
    if kind == 'jump':
      sc['clock']['jumps'] = {str(rng.randrange(1, 400)): rng.choice([-3600_000_000, -2_000_000, -1, 5_000_000, 3600_000_000])
                              for _ in range(rng.randrange(1, 4))}
  return sc


def shrink_candidates(sc):
  for c in cc.shrink_chart(sc):
    if c.get('live_spy') == sc.get('live_spy') and c.get('live_trace') == sc.get('live_trace') and c['host'] == sc['host']:
      yield c
  if sc.get('live_spy') and sc.get('live_trace'):
    yield dict(sc, live_spy=False)
    yield dict(sc, live_trace=False)


def collect(run, res):
  res.nontrivial[:] = []
  ntr = 0
  eq = False
  last = None
  for ob in run.steps:
    if ob.trace:
      ntr = len(ob.trace)
      for a, b in zip(ob.trace, ob.trace[1:]):
        if a[3] == b[3]:
          eq = True
  if eq:
    run.sim.probe('equal_consecutive_timestamps')
  if eq or run.sim.faults.get('clock_jump'):
    c = run.sc.get('clock', {})
    res.nontrivial.append(hash((run.host, c.get('kind'), c.get('q_us'), bool(run.sc.get('live_spy')), bool(run.sc.get('live_trace')), ntr // 3)))


def execute(sc, sched):
  return cc.run_and_judge(sc, sched, ORACLES, collect=collect)
