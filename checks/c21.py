"""C21 - live spy/trace output emits every line once, in order, whatever the clock says."""
import random

from checks import chart_common as cc
from models import chart_oracles as co

PID = 'C21'
SCHEDULE_DEPENDENT = False
RULE = ('seeded instrumented charts with live_spy and/or live_trace switched on, on queued hosts (callbacks inline) and '
        'active objects (callbacks through the writer thread; a third stratum runs 2-3 active objects that share the writer, kept busy by 1-3 client threads under the seeded scheduler), under injected clock behaviours: fine (strictly '
        'increasing), coarse (1 ms / 15.6 ms / 1 s resolution: consecutive steps share a timestamp), frozen, and '
        'backward/forward jumps; oracle: the sequence handed to the live-spy callback equals the spy lines the steps '
        'produced, and the live-trace callback is called exactly once per new trace record, in order, with a line '
        'describing that record. Non-trivial = a run in which two consecutive trace records carry equal timestamps or the '
        'clock jumped; distinct = distinct (host, clock kind, live flags, number of transitions bucket) tuples.')
ASSUMPTIONS = ['the clock is the injected fault; in active-object runs the client waits until the object and the writer thread are idle before comparing']
PROBES = ['equal_consecutive_timestamps']
PLAN = {
  'quick': {'strata': {'fine-clock': 1500, 'faulty-clock': 4000, 'shared-writer': 1500}, 'wall_s': 300, 'chunk': 100, 'min_conclusive': 1000},
  'thorough': {'strata': {'fine-clock': 30000, 'faulty-clock': 100000, 'shared-writer': 40000}, 'wall_s': 900, 'chunk': 250, 'min_conclusive': 1000},
}
ORACLES = [co.check_live]


def generate(seed, stratum, tier):
  rng = random.Random(seed)
  if stratum == 'shared-writer':
    # 2-3 active objects share the one writer thread; client threads keep them busy at the same time
    from worlds import ao as aw, common
    nobj = rng.randrange(2, 4)
    objs = aw.default_objects(nobj)
    for o in objs:
      o['two_states'] = True
      o['live_spy'], o['live_trace'] = rng.choice([(True, True), (True, False), (False, True)])
      if rng.random() < 0.4:
        o['react'] = {'SA': [{'op': 'post_fifo', 'sig': 'SC', 'id': 1, 'max': 2}]}
    nclients = rng.randrange(1, 4)
    clients = [[] for _ in range(nclients)]
    clients[0] += [['start', i] for i in range(nobj)]
    for c in range(1, nclients):
      clients[c].append(['sleep', 0.001])
    for _ in range(rng.randrange(3, 16)):
      clients[rng.randrange(nclients)].append([rng.choice(['post_fifo', 'post_lifo']), rng.randrange(nobj), rng.choice(['SW', 'SW', 'SA', 'SB'])])
    if rng.random() < 0.25:
      # the fabric is stopped while an object with live output is in the middle of a (slow) step, and another object is
      # started afterwards (which restarts the fabric and the writer): the lines queued in between arrive late, but they arrive
      objs.append(dict(aw.default_objects(nobj + 1)[-1], two_states=True, live_spy=True, live_trace=rng.random() < 0.5))
      objs[0]['live_spy'] = True
      objs[0].setdefault('react', {})['SB'] = [{'op': 'sleep', 'd': 0.05, 'id': 40, 'max': 1}]
      clients[0] += [['post_fifo', 0, 'SB'], ['sleep', rng.choice([0.01, 0.02])], ['fabric_stop'], ['sleep', 0.1], ['start', nobj], ['sleep', 0.05],
                     ['post_fifo', nobj, 'SW'], ['sleep', 0.05]]
    kind = rng.choice(['fine', 'coarse', 'coarse', 'frozen', 'jump'])
    clock = {'kind': kind, 'q_us': rng.choice([1000, 15600, 1000000])}
    if kind == 'jump':
      clock['jumps'] = {str(rng.randrange(1, 300)): rng.choice([-3600_000_000, -1, 5_000_000]) for _ in range(rng.randrange(1, 3))}
    return {'world': 'ao', 'objects': objs, 'queue_size': 500, 'clients': clients, 'clock': clock,
            'sched': common.draw_sched(rng, grans=('sync', 'line'), expected_steps=2500, victims=[rng.choice(['writer', 'consumer'])])}
  host = rng.choice(['queued', 'queued', 'ao'])
  build = rng.choice(['closure-spied', 'template'])
  ops, weights = (('ev', 'rtc', 'post_fifo', 'circuit'), (6, 2, 2, 1)) if host == 'queued' else (('ev',), (1,))
  if rng.random() < 0.4:
    # live output switched off and on again between steps, logs cleared between steps
    ops, weights = ops + ('live', 'clear_trace', 'clear_spy'), tuple(weights) + (1.2, 0.6, 0.3)
  sc = cc.gen_chart_scenario(rng, combos=[(host, build)], ops=ops, weights=weights, nops=(3, 25), flags=False,
                             spec_kw={'nstates': rng.randrange(2, 9), 'p_react': 0.7})
  sc['live_spy'], sc['live_trace'] = rng.choice([(True, True), (True, False), (False, True), (False, True)])
  if rng.random() < 0.3:
    # a small trace ring: it is full, and wraps, within the history
    sc['rings'] = {'trc': rng.choice([2, 3, 5])}
  if stratum == 'fine-clock':
    sc['clock'] = {'kind': 'fine'}
  else:
    kind = rng.choice(['coarse', 'coarse', 'frozen', 'jump'])
    sc['clock'] = {'kind': kind, 'q_us': rng.choice([1000, 15600, 1000000])}
    if kind == 'jump':
      sc['clock']['jumps'] = {str(rng.randrange(1, 400)): rng.choice([-3600_000_000, -2_000_000, -1, 5_000_000, 3600_000_000])
                              for _ in range(rng.randrange(1, 4))}
  return sc


def shrink_candidates(sc):
  if sc.get('world') == 'ao':
    cl = sc['clients']
    for i, s_ in enumerate(cl):
      for j in range(len(s_) - 1, -1, -1):
        if s_[j][0] == 'start':
          continue
        yield dict(sc, clients=cl[:i] + [s_[:j] + s_[j + 1:]] + cl[i + 1:])
    return
  for c in cc.shrink_chart(sc):
    if c.get('live_spy') == sc.get('live_spy') and c.get('live_trace') == sc.get('live_trace') and c['host'] == sc['host']:
      yield c
  if sc.get('live_spy') and sc.get('live_trace'):
    yield dict(sc, live_spy=False)
    yield dict(sc, live_trace=False)


def collect(run, res):
  res.nontrivial[:] = []
  ntr = 0
  eq = False
  last = None
  for ob in run.steps:
    if ob.trace:
      ntr = len(ob.trace)
      for a, b in zip(ob.trace, ob.trace[1:]):
        if a[3] == b[3]:
          eq = True
  if eq:
    run.sim.probe('equal_consecutive_timestamps')
  if eq or run.sim.faults.get('clock_jump'):
    c = run.sc.get('clock', {})
    res.nontrivial.append(hash((run.host, c.get('kind'), c.get('q_us'), bool(run.sc.get('live_spy')), bool(run.sc.get('live_trace')), ntr // 3)))


def execute_shared_writer(sc, sched):
  """per object: what its live callbacks received (through the shared writer thread) equals what
  its steps produced, in order"""
  from worlds import ao as aw, common
  from checks import ao_common as ac
  from sim import prims, kernel
  from sim.runner import RunResult
  import re
  res = RunResult()

  def set_clock(sim):
    c = sc['clock']
    sim.clock = prims.ClockBehaviour(c.get('kind', 'fine'), c.get('q_us', 1000), {int(k): v for k, v in (c.get('jumps') or {}).items()})
  run, sim, reason = aw.run_ao(sc, sched, max_steps=300000, before_run=set_clock)
  try:
    if ac.base_judge(run, sim, reason, res):
      foreign = re.compile(r'^POST_(FIFO|LIFO):(SW|SA|SB)$')     # markers of posts made by client threads between steps
      for oi, o in enumerate(run.objs):
        od = sc['objects'][oi]
        if od.get('live_spy'):
          # the queue reflection is computed twice (once for the step log, once for the full spy) and a
          # client thread may post in between: the two texts can legitimately differ in the counts
          norm = lambda l: '<- Queued' if l.startswith('<- Queued:') else l
          made = [norm(l) for l in o.full.spy.snapshot() if not foreign.match(l)]
          got = [norm(l) for l in run.live_spy.get(oi, []) if not foreign.match(l)]
          if len(made) < 480 and got != made:
            k = 0
            while k < min(len(got), len(made)) and got[k] == made[k]:
              k += 1
            res.violate('live-spy', {'op': 'shared-writer', 'got': 'fewer' if len(got) < len(made) else ('more' if len(got) > len(made) else 'different')},
                        '%s: the steps produced %d spy lines, the live spy callback received %d; first difference at %d: produced %s / received %s' % (
                          run.names[oi], len(made), len(got), k, made[k:k + 3], got[k:k + 3]))
            break
        if od.get('live_trace'):
          tr = [(t.start_state, t.signal, t.end_state) for t in o.full.trace.snapshot()]
          lt = run.live_trace.get(oi, [])
          bad = len(lt) != len(tr) or any(('%s->%s' % (t[0], t[2])) not in line for t, line in zip(tr, lt))
          if len(tr) < 480 and bad:
            res.violate('live-trace', {'op': 'shared-writer', 'got': 'fewer' if len(lt) < len(tr) else ('more' if len(lt) > len(tr) else 'wrong-line')},
                        '%s: %d trace records %s, the live trace callback was called %d times: %s' % (run.names[oi], len(tr), tr[:6], len(lt), lt[:6]))
            break
      clk = getattr(sim, 'clock', None)
      if clk is not None and (clk.repeats or sim.faults.get('clock_jump')):
        sim.probe('equal_consecutive_timestamps')
        res.nontrivial.append(hash(('shared', len(run.objs), sc['clock'].get('kind'), sc['clock'].get('q_us'), len(run.dispatch) // 4)))
    if res.outcome == 'violation' or sched.get('seed', 0) % 499 == 0:
      res.sample = {'world': 'active objects sharing the writer thread', 'clock': sc['clock'], 'clients': sc['clients'],
                    'live_spy_ao1': run.live_spy.get(0, [])[:12], 'live_trace_ao1': run.live_trace.get(0, [])[:4]}
  finally:
    common.finish(sim, res)
  return res


def execute(sc, sched):
  if sc.get('world') == 'ao':
    return execute_shared_writer(sc, sched)
  return cc.run_and_judge(sc, sched, ORACLES, collect=collect)
