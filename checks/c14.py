"""C14 - queued charts dispatch posted events in deque order, one per step."""
import random

from checks import chart_common as cc
from models import chart_oracles as co

PID = 'C14'
SCHEDULE_DEPENDENT = False
RULE = ('seeded charts on a queued host (HsmWithQueues, capacity 500, no overflow) driven by histories mixing external '
        'post_fifo/post_lifo, next_rtc, complete_circuit and posts made by handlers at entry/exit/init/hook/transition '
        'points (each bounded by a fire count); oracle: a double-ended-queue model driven by the same operations '
        '(handler posts predicted by the reference state machine) predicts exactly which event every step dispatches, '
        'next_rtc returns False and dispatches nothing on an empty queue, no event is dispatched twice, the queue '
        'contents match after every op and complete_circuit returns with an empty queue (a long-circuit stratum runs circuits of 120-1100 steps fed by a handler that keeps re-posting). Non-trivial = a step taken '
        'with >= 2 events queued or a handler-made post; distinct = distinct (op kind, queue length before, number of '
        'handler posts in the step, lifo/fifo mix) tuples.')
ASSUMPTIONS = ['no schedule dimension (posts from handlers are re-entrancy, not concurrency)']
PROBES = []
PLAN = {
  'quick': {'strata': {'deque-order': 5000, 'long-circuit': 48}, 'wall_s': 300, 'chunk': 100, 'min_conclusive': 1000},
  'thorough': {'strata': {'deque-order': 120000, 'long-circuit': 1500}, 'wall_s': 900, 'chunk': 250, 'min_conclusive': 1000},
}
ORACLES = [lambda run, res: co.check_queue_order(run, res, want=('C14',))]


def generate(seed, stratum, tier):
  rng = random.Random(seed)
  if stratum == 'long-circuit':
    # one state whose hook re-posts the signal it handles N times: a circuit of N+1 steps in
    # which the queue never holds more than a few events
    n = rng.choice([120, 520, 700, 1100])
    spec = {'signals': ['SA', 'SB'], 'states': [
      {'name': 'q1', 'parent': None, 'init': None, 'entry_clause': True, 'exit_clause': True, 'init_clause': True, 'fx': {},
       'react': {'SA': {'kind': 'hook', 'fx': [{'op': rng.choice(['post_fifo', 'post_lifo']), 'sig': 'SA', 'id': 1, 'max': n}]},
                 'SB': {'kind': 'hook', 'fx': []}}}]}
    return {'spec': spec, 'host': 'queued', 'build': rng.choice(['closure', 'closure-spied']), 'start': 'q1',
            'ops': [['post_fifo', 'SB'], ['post_fifo', 'SA'], ['post_fifo', 'SB'], ['circuit'], ['rtc']],
            'instrumented': rng.random() < 0.5, 'live_spy': False, 'live_trace': False,
            'sched': {'gran': 'line', 'policy': 'sticky', 's': 1.0}}
  kw = {'fx_rate': rng.choice([0.0, 0.2, 0.4]), 'fx_ops': ('post_fifo', 'post_lifo'), 'nstates': rng.randrange(2, 9)}
  ops, weights = ('post_fifo', 'post_lifo', 'rtc', 'circuit', 'ev'), (4, 3, 5, 1, 1)
  sibling = rng.random() < 0.3
  if sibling:
    # a second queued chart is alive and used in between: each chart's order is that of a deque driven by its own operations
    ops, weights = ops + ('sib_post_fifo', 'sib_post_lifo', 'sib_rtc'), weights + (2, 1, 2)
  sc = cc.gen_chart_scenario(rng, combos=[('queued', 'closure'), ('queued', 'closure-spied'), ('queued', 'template')],
                             spec_kw=kw, ops=ops, weights=weights, nops=(5, 40))
  if sibling:
    sc['sibling'] = True
  if rng.random() < 0.3:
    # a poster that keeps its Event object and posts the very same object again
    for o in sc['ops']:
      if o[0] in ('post_fifo', 'post_lifo') and rng.random() < 0.4:
        o[:] = ['re' + o[0]]
  if rng.random() < 0.25:
    # a small queue: posts made by handlers during a step find it full or nearly full (the event being handled has
    # already left it); overflow displaces as a bounded deque does
    sc['queue_size'] = rng.choice([2, 3, 4, 6])
  if rng.random() < 0.3:
    # live output switched on: it must not change which events a step or a circuit dispatches
    sc['live_spy'], sc['live_trace'] = rng.choice([(True, False), (False, True), (True, True)])
  return sc


shrink_candidates = cc.shrink_chart


def collect(run, res):
  res.nontrivial[:] = []
  qlen = 0
  for ob in run.steps:
    if ob.op[0] in ('rtc', 'circuit', 'ev') and ob.pred:
      nfx = sum(len(s.get('fx', [])) for s in ob.pred['steps'] if s)
      if qlen >= 2 or nfx:
        res.nontrivial.append(hash((ob.op[0], min(qlen, 6), min(nfx, 4), len(ob.pred['steps']))))
    qlen = len(ob.model_q or [])


def execute(sc, sched):
  return cc.run_and_judge(sc, sched, ORACLES, collect=collect)
