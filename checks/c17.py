"""C17 - factory/template charts and their to_code text behave like hand-written charts."""
import random

from checks import chart_common as cc
from models import chart_oracles as co

PID = 'C17'
SCHEDULE_DEPENDENT = False
RULE = ('one seeded chart spec and event history is built four ways - hand-written closures, state_method_template + '
        'register_signal_callback + register_parent, Factory.create/catch/nest/to_method, and the text returned by '
        'to_code for every state exec-ed and used in place of the generated states - on queued, active-object and '
        'Factory hosts (a second stratum registers or replaces handling for a state and signal after the chart has been running); '
        'Factory hosts; callback tables include states with no registered entry/exit/init and callbacks that decline. '
        'Oracle: every build\'s handler-side action log and resting states equal the reference model and the '
        'hand-written build step by step. Non-trivial = a compared build whose history contains a transition; distinct = '
        'distinct (build, host, topology class, init depth) tuples.')
ASSUMPTIONS = ['no schedule dimension']
PROBES = []
PLAN = {
  'quick': {'strata': {'builds': 1500, 'late-registration': 700}, 'wall_s': 300, 'chunk': 25, 'min_conclusive': 300},
  'thorough': {'strata': {'builds': 40000, 'late-registration': 20000}, 'wall_s': 900, 'chunk': 100, 'min_conclusive': 300},
}

VARIANTS = [
  {'host': 'queued', 'build': 'closure-spied'},   # baseline: hand written
  {'host': 'queued', 'build': 'template'},
  {'host': 'queued', 'build': 'to_code'},
  {'host': 'ao', 'build': 'template'},
  {'host': 'ao', 'build': 'to_code'},
  {'host': 'factory', 'build': 'factory'},
  {'host': 'factory', 'build': 'to_code'},
]


def generate(seed, stratum, tier):
  rng = random.Random(seed)
  kw = {'decline_bias': rng.choice([0.1, 0.3]), 'p_swallow': rng.choice([0.0, 0.15, 0.3]), 'p_mute': rng.choice([0.0, 0.3, 0.6]),
        'p_decline_query': rng.choice([0.0, 0.3, 0.6])}     # callbacks that look at the chart and then decline
  sc = cc.gen_chart_scenario(rng, combos=[('queued', 'closure-spied')], nops=(4, 25), spec_kw=kw, flags=False)
  sc['variants'] = [0] + sorted(rng.sample(range(1, len(VARIANTS)), 3 if tier == 'quick' else 6))
  sc['twin'] = rng.random() < 0.4
  if stratum != 'late-registration' and rng.random() < 0.3:
    # the chart subscribes to one of its signals before it is started (the request travels to it as a meta event) and
    # later publishes that signal itself: on hosts with a fabric the event comes back through it
    sig = rng.choice(sc['spec']['signals'])
    sc['pre_start'] = [['subscribe', sig]]
    for _ in range(rng.randrange(1, 4)):
      sc['ops'].insert(rng.randrange(0, len(sc['ops']) + 1), ['pub', sig])
  if stratum == 'late-registration':
    # handling for a (state, signal) pair is registered, or replaced, after the chart has been running
    # (the text of to_code is taken at build time, so those variants are left out here)
    names = [st['name'] for st in sc['spec']['states']]
    sigs = sc['spec']['signals']
    ops = sc['ops']
    for _ in range(rng.randrange(1, 4)):
      sname, sig = rng.choice(names), rng.choice(sigs)
      reaction = rng.choice([{'kind': 'hook', 'fx': []}, {'kind': 'trans', 'target': rng.choice(names), 'fx': []}, {'kind': 'decline'}])
      pos = rng.randrange(1, len(ops) + 1)
      ops.insert(pos, ['register', sname, sig, reaction])
      # the signal is offered again afterwards (and usually was before)
      ops.insert(rng.randrange(pos + 1, len(ops) + 1), ['ev', sig])
      ops.insert(rng.randrange(0, pos), ['ev', sig])
    sc['variants'] = [0] + [v for v in sc['variants'][1:] if VARIANTS[v]['build'] != 'to_code']
    if len(sc['variants']) < 2:
      sc['variants'].append(1)
  return sc


def shrink_candidates(sc):
  v = sc['variants']
  if len(v) > 2:
    for i in range(1, len(v)):
      yield dict(sc, variants=v[:i] + v[i + 1:])
  for c in cc.shrink_chart(sc):
    if c['host'] == sc['host']:
      yield c


def behaviour(run):
  return [(tuple(ob.op), tuple(co.obs_actions(ob.recs)), ob.state, ob.exc) for ob in run.steps]


def execute(sc, sched):
  base_beh = None
  total = None
  for vi in sc['variants']:
    var = VARIANTS[vi]
    sc2 = dict(sc)
    sc2.update(var)
    r = cc.run_and_judge(sc2, sched, [lambda run, res: co.check_transitions(run, res, want=('C01', 'C02')), co.check_start],
                         keep_run=True)
    run = r.run
    r.run = None
    if total is None:
      total = r
    else:
      total.steps += r.steps
      total.switches += r.switches
      total.digest = hash((total.digest, r.digest))
      total.nontrivial.extend(hash((vi, s)) for s in r.nontrivial)
    if r.outcome == 'inconclusive':
      total.outcome, total.reason = 'inconclusive', r.reason
      return total
    if r.outcome == 'violation':
      v = r.violations[0]
      total.violations = []
      if vi == 0:
        total.outcome, total.reason = 'inconclusive', 'hand-written baseline violates ' + v.rule
        return total
      total.violate('build-misbehaves', {'build': var['build'], 'host': var['host'], 'rule': v.rule},
                    'build %s on %s: %s\n%s' % (var['build'], var['host'], v.rule, v.detail))
      return total
    beh = behaviour(run)
    if vi == 0:
      base_beh = beh
      continue
    if beh != base_beh:
      k = 0
      while k < min(len(beh), len(base_beh)) and beh[k] == base_beh[k]:
        k += 1
      total.violate('build-differs', {'build': var['build'], 'host': var['host']},
                    'build %s on %s behaves differently from the hand-written chart at step %d:\n hand-written %s\n this         %s' % (
                      var['build'], var['host'], k, base_beh[k] if k < len(base_beh) else None, beh[k] if k < len(beh) else None))
      return total
  return total
