"""C31 - a rejected timed post never fires."""
import random

from sim import kernel, seams
from sim.runner import RunResult
from worlds import common, ao as aw
from checks import ao_common as ac
from checks.c10 import calendar

PID = 'C31'
SCHEDULE_DEPENDENT = True
RULE = ('one real ActiveObject whose capacity for tracked timed sources is 2-4 (resource exhaustion is the injected fault): '
        'the capacity is filled with long-running sources, then 1-2 further timed posts are made (deferred or not, fifo/lifo, '
        'periods from a small set); the new timer thread and the caller are interleaved by the seeded scheduler (PCT lets the '
        'new thread run first; bytecode granularity inside __post_event and the timer body). Oracle: the extra call raises '
        'ActiveObjectOutOfPostedEventResources; the rejected source\'s event never reaches the queue over the whole horizon; '
        'the tracked sources keep posting on their calendars; second stratum: one or no slot is free and 2-3 threads make a timed post at the same instant - at most as many as there are free slots may be accepted (in part of the runs one more thread cancels a tracked source at that instant, which frees one more slot, and the stream the rejection writes the table to may be slow). Non-trivial = every run (a rejection happens in each); distinct = '
        'distinct (capacity, deferred flag, kind, interleaving signature of the rejected call) tuples.')
ASSUMPTIONS = ['virtual time; horizon 3-8 periods']
PROBES = ['rejected_post']
PLAN = {
  'quick': {'strata': {'rejected': 3000, 'concurrent-extra': 1200}, 'wall_s': 300, 'chunk': 50, 'min_conclusive': 800},
  'thorough': {'strata': {'rejected': 80000, 'concurrent-extra': 40000}, 'wall_s': 900, 'chunk': 100, 'min_conclusive': 800},
}


def generate_concurrent(rng):
  # one slot (or none) is left in the table and 2-3 threads make a timed post at the same instant: at most as many as
  # there are free slots may be accepted, the others must be rejected and must never fire
  cap = rng.randrange(2, 5)
  free = rng.choice([1, 1, 0])
  p = rng.choice([0.1, 0.25, 1.0])
  n = rng.randrange(2, 4)
  c0 = [['start', 0]]
  for slot in range(cap - free):
    c0.append(['timed', 0, rng.choice(['fifo', 'lifo']), 'TA', p * rng.choice([1, 2]), 0, True, slot])
  c0.append(['barrier', n])
  clients = [c0] + [[['barrier', n]] for _ in range(n - 1)]
  for k in range(n):
    clients[k].append(['timed', 0, rng.choice(['fifo', 'lifo']), 'TX', p * rng.choice([0.5, 1, 3]), rng.choice([0, 1, 3]), rng.choice([False, False, True, None]), 100 + k])
  cancel = cap - free > 0 and rng.random() < 0.4
  if cancel:
    # one more thread cancels a tracked source at the same instant: the table changes while posts are being rejected
    for c in clients:
      for o in c:
        if o[0] == 'barrier':
          o[1] = n + 1
    clients.append([['barrier', n + 1], ['cancel_event', 0, 0, 0, rng.choice(['same', 'copy'])]])
  return {'objects': aw.default_objects(1), 'queue_size': cap, 'clients': clients, 'horizon_s': p * rng.randrange(3, 9) + 2 * p,
          'stratum': 'concurrent-extra', 'free': free, 'cancel': cancel,
          'slow_stdout': rng.choice([0, 0, 20, 60, 200]) if cancel else 0,
          'sched': common.draw_sched(rng, grans=('line', 'opcode'), weights=(1, 2), expected_steps=1500, policies=('sticky', 'pct'))}


def judge_concurrent(sc, run, sim, res):
  hor_us = int(sc['horizon_s'] * 1e6)
  cap, free = sc['queue_size'], sc['free']
  appends = ac.source_appends(run, 0)
  q = ac.replay_queue(run, 0)
  group = [s for s in run.sources if s['slot'] is not None and s['slot'] >= 100]
  accepted = [s for s in group if not s['rejected']]
  sim.probe('rejected_post')
  res.nontrivial.append(hash(('concurrent', cap, free, len(group), sim.switch_signature())))
  cancelled = 1 if sc.get('cancel') else 0
  if len(accepted) > free + cancelled:
    res.violate('extra-source-accepted', {'concurrent': True},
                '%d sources were tracked (capacity %d) and %d threads made a timed post at the same time%s: %d were accepted, only %d slot(s) were free' % (
                  cap - free, cap, len(group), ' while one tracked source was cancelled' if cancelled else '', len(accepted), free + cancelled))
    return
  if len(accepted) < free:
    res.violate('tracked-source-rejected', {'concurrent': True}, 'a slot was free but all %d concurrent timed posts were rejected' % len(group))
    return
  for s in run.sources:
    desc = 'timed post %s/%s period=%s times=%s deferred=%s' % (s['kind'], s['sig'], s['period'], s['times'], s['deferred'])
    if s['rejected']:
      if s not in group:
        res.violate('tracked-source-rejected', {}, '%s raised %s although the table was not full' % (desc, s['exc']))
        return
      if s['exc'] != 'ActiveObjectOutOfPostedEventResources':
        res.violate('wrong-exception', {'exc': s['exc']}, '%s raised %s' % (desc, s['exc']))
        return
      fired = [a for a in q['adds'] if a[3] == s['uid']]
      if fired:
        res.violate('rejected-source-fired', {'deferred': s['deferred'] is not False, 'n': 'one' if len(fired) == 1 else 'several', 'concurrent': True},
                    '%s was rejected with %s, yet its event was put into the queue %d time(s)' % (desc, s['exc'], len(fired)))
        return
    else:
      inst = [g[3] for g in appends.get(s['uid'], [])]
      cal = calendar(s, hor_us)
      if cancelled and s['slot'] == 0:
        continue     # the cancelled source: when it stops is C11's subject
      if inst != cal:
        res.violate('tracked-source-disturbed', {'concurrent': True}, '%s posted at %s instead of %s' % (desc, [i / 1e6 for i in inst[:10]], [c / 1e6 for c in cal[:10]]))
        return


def generate(seed, stratum, tier):
  rng = random.Random(seed)
  if stratum == 'concurrent-extra':
    return generate_concurrent(rng)
  cap = rng.randrange(2, 5)
  p = rng.choice([0.1, 0.25, 1.0])
  c0 = [['start', 0]]
  finite = False
  for slot in range(cap):
    times = 0
    if slot and rng.random() < 0.25:
      times, finite = 1, True      # a tracked source that runs out on its own (its entry stays in the table)
    c0.append(['timed', 0, rng.choice(['fifo', 'lifo']), 'TA', p * rng.choice([1, 2]), times, True, slot])
  if finite:
    c0.append(['sleep', p * rng.choice([2.5, 3])])
  elif rng.random() < 0.5:
    c0.append(['sleep', p * rng.choice([0.5, 1, 1.5])])
  extra = rng.randrange(1, 3)
  for x in range(extra):
    c0.append(['timed', 0, rng.choice(['fifo', 'lifo']), 'TX', p * rng.choice([0.5, 1, 3]), rng.choice([0, 1, 3]), rng.choice([False, False, True, None]), cap + x])
  sc = {'objects': aw.default_objects(1), 'queue_size': cap, 'clients': [c0], 'horizon_s': p * rng.randrange(3, 9) + 2 * p,
        'sched': common.draw_sched(rng, grans=('sync', 'line', 'opcode'), weights=(1, 2, 3), expected_steps=1200, policies=('sticky', 'pct'))}
  if rng.random() < 0.3:
    # the maximum is declared by the object's own class (a subclass with a small QUEUE_SIZE), the library default stays as it is
    sc['objects'][0]['class_cap'] = cap
    sc['queue_size'] = 500
    sc['cap_eff'] = cap
  return sc


def shrink_candidates(sc):
  if sc.get('stratum') == 'concurrent-extra':
    if sc['sched'].get('gran') == 'opcode':
      yield dict(sc, sched=dict(sc['sched'], gran='line'))
    if sc.get('slow_stdout'):
      yield dict(sc, slow_stdout=0)
    return
  s = sc['clients'][0]
  extras = [j for j, o in enumerate(s) if o[0] == 'timed' and o[3] == 'TX']
  if len(extras) > 1:
    yield dict(sc, clients=[s[:extras[-1]] + s[extras[-1] + 1:]])
  for j, o in enumerate(s):
    if o[0] == 'sleep':
      yield dict(sc, clients=[s[:j] + s[j + 1:]])
  if sc['sched'].get('gran') == 'opcode':
    yield dict(sc, sched=dict(sc['sched'], gran='line'))


def execute(sc, sched):
  res = RunResult()
  def faults(sim):
    if sc.get('slow_stdout'):
      sim.slow_stdout = sc['slow_stdout']     # the stream the rejection writes the table to is slow
  run, sim, reason = aw.run_ao(sc, sched, max_steps=400000, horizon_s=sc['horizon_s'], before_run=faults)
  try:
    ok = ac.base_judge(run, sim, reason, res)
    if ok and reason not in ('quiescent', 'horizon'):
      res.outcome, res.reason = 'inconclusive', reason
      ok = False
    if ok and sc.get('stratum') == 'concurrent-extra':
      judge_concurrent(sc, run, sim, res)
    elif ok:
      hor_us = int(sc['horizon_s'] * 1e6)
      cap = sc.get('cap_eff') or sc['queue_size']
      appends = ac.source_appends(run, 0)
      q = ac.replay_queue(run, 0)
      for si, s in enumerate(run.sources):
        desc = 'timed post #%d %s/%s period=%s times=%s deferred=%s' % (si, s['kind'], s['sig'], s['period'], s['times'], s['deferred'])
        if si >= cap:
          sim.probe('rejected_post')
          res.nontrivial.append(hash((cap, str(s['deferred']), s['kind'], sim.switch_signature())))
          if not s['rejected']:
            res.violate('extra-source-accepted', {}, '%s was accepted although %d sources are already tracked (capacity %d)' % (desc, cap, cap))
            break
          if s['exc'] != 'ActiveObjectOutOfPostedEventResources':
            res.violate('wrong-exception', {'exc': s['exc']}, '%s raised %s' % (desc, s['exc']))
            break
          fired = [a for a in q['adds'] if a[3] == s['uid']]
          if fired:
            res.violate('rejected-source-fired', {'deferred': s['deferred'] is not False, 'n': 'one' if len(fired) == 1 else 'several'},
                        '%s was rejected with %s, yet its event was put into the queue %d time(s): %s' % (
                          desc, s['exc'], len(fired), [(a[1], a[2], a[4] / 1e6) for a in fired[:4]]))
            break
        else:
          if s['rejected']:
            res.violate('tracked-source-rejected', {}, '%s raised %s although only %d sources were tracked' % (desc, s['exc'], si))
            break
          inst = [g[3] for g in appends.get(s['uid'], [])]
          cal = calendar(s, hor_us)
          if inst != cal:
            res.violate('tracked-source-disturbed', {}, '%s posted at %s instead of %s' % (desc, [i / 1e6 for i in inst[:10]], [c / 1e6 for c in cal[:10]]))
            break
    if res.outcome == 'violation' or sched.get('seed', 0) % 499 == 0:
      res.sample = {'capacity': sc['queue_size'], 'client': sc['clients'][0], 'horizon_s': sc['horizon_s'],
                    'sources': [{k: str(s[k]) for k in ('sig', 'period', 'times', 'deferred', 'rejected', 'exc')} for s in run.sources]}
  finally:
    common.finish(sim, res)
  return res
