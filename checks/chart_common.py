"""shared by the chart-world checks: scenario generation (swarm over shape, host, build,
history), execution, and the evidence sample."""
import random

from sim import kernel
from sim.runner import RunResult
from worlds import common, chartgen, chart as chartworld
from models import chart_oracles as co

# (host, build) combinations that miros supports
COMBOS = [
  ('plain', 'closure'), ('plain', 'closure-spied'),
  ('instrumented', 'closure'), ('instrumented', 'closure-spied'),
  ('queued', 'closure'), ('queued', 'closure-spied'), ('queued', 'template'), ('queued', 'to_code'),
  ('ao', 'closure'), ('ao', 'closure-spied'), ('ao', 'template'), ('ao', 'to_code'),
  ('factory', 'factory'), ('factory', 'to_code'),
]


def gen_history(rng, spec, n, ops=('ev',), weights=None, queries=False):
  sp = chartgen.Spec(spec)
  out = []
  names = sp.order
  for _ in range(n):
    k = rng.choices(list(ops), weights=weights)[0] if weights else rng.choice(list(ops))
    if k in ('ev', 'post_fifo', 'post_lifo', 'defer', 'sib_post_fifo', 'sib_post_lifo', 'pub'):
      out.append([k, rng.choice(sp.signals)])
    elif k in ('is_in', 'child'):
      out.append([k, rng.choice(names + ['top'])])
    elif k == 'live':
      out.append([k] + rng.choice([[True, True], [True, False], [False, True], [False, False]]))
    else:
      out.append([k])
  return out


def gen_chart_scenario(rng, combos=None, nops=(5, 41), spec_kw=None, ops=('ev',), weights=None,
                       start_any=True, flags=True):
  spec_kw = dict(spec_kw or {})
  if common.deep(rng):
    # thorough tier: larger charts and longer histories than the quick tier ever draws
    spec_kw['nstates'] = min(30, 2 * spec_kw.get('nstates', rng.randrange(2, 15)) + rng.randrange(0, 5))
    spec_kw.setdefault('max_depth', 12)
    nops = (nops[0], nops[0] + 3 * max(1, nops[1] - nops[0]))
  spec = chartgen.gen_spec(rng, **spec_kw)
  host, build = rng.choice(combos or COMBOS)
  sp = chartgen.Spec(spec)
  sc = {
    'spec': spec, 'host': host, 'build': build,
    'start': rng.choice(sp.order) if start_any else sp.order[0],
    'ops': gen_history(rng, spec, rng.randrange(*nops), ops, weights),
    'instrumented': True, 'live_spy': False, 'live_trace': False,
    'sched': {'gran': 'line', 'policy': 'sticky', 's': 1.0},
  }
  if flags and host in ('queued', 'ao'):
    sc['instrumented'] = rng.random() < 0.8
  if host == 'ao' and rng.random() < 0.3:
    sc['nameless'] = True     # an active object created without a name (takes effect for decorated builds)
  return sc


def shrink_chart(sc):
  """smaller scenarios: shorter history, fewer states, fewer reactions, simpler host"""
  ops = sc['ops']
  n = len(ops)
  if n > 0:
    yield dict(sc, ops=ops[:n // 2])
    yield dict(sc, ops=ops[n // 2:])
    for i in range(n - 1, -1, -1):
      yield dict(sc, ops=ops[:i] + ops[i + 1:])
  spec = sc['spec']
  sp = chartgen.Spec(spec)
  # remove a leaf state that is nobody's target/init/start
  used = set([sc['start']])
  for st in spec['states']:
    if st['init']:
      used.add(st['init'])
    for r in st['react'].values():
      if r.get('target'):
        used.add(r['target'])
  for o in ops:
    if o[0] in ('is_in', 'child'):
      used.add(o[1])
  for st in reversed(spec['states']):
    n_ = st['name']
    if n_ not in used and not sp.children[n_]:
      yield dict(sc, spec={'signals': spec['signals'], 'states': [s for s in spec['states'] if s['name'] != n_]})
  # drop one reaction / one init / one fx list
  for si, st in enumerate(spec['states']):
    for sig in sorted(st['react'].keys()):
      st2 = dict(st, react={k: v for k, v in st['react'].items() if k != sig})
      yield dict(sc, spec={'signals': spec['signals'], 'states': spec['states'][:si] + [st2] + spec['states'][si + 1:]})
    if st['init'] is not None:
      st2 = dict(st, init=None)
      yield dict(sc, spec={'signals': spec['signals'], 'states': spec['states'][:si] + [st2] + spec['states'][si + 1:]})
    if st.get('fx'):
      st2 = dict(st, fx={})
      yield dict(sc, spec={'signals': spec['signals'], 'states': spec['states'][:si] + [st2] + spec['states'][si + 1:]})
    for w in ('entry_clause', 'exit_clause'):
      if not st[w]:
        st2 = dict(st)
        st2[w] = True
        yield dict(sc, spec={'signals': spec['signals'], 'states': spec['states'][:si] + [st2] + spec['states'][si + 1:]})
  # re-parent: hoist a state one level up is not behaviour preserving; skipped
  if sc['host'] in ('ao', 'factory') and sc['build'] in ('closure', 'closure-spied', 'template'):
    yield dict(sc, host='queued')
  if sc['host'] == 'queued' and sc['build'] in ('closure', 'closure-spied'):
    yield dict(sc, host='instrumented')
  if sc.get('live_spy') or sc.get('live_trace'):
    yield dict(sc, live_spy=False, live_trace=False)


def run_and_judge(sc, sched, oracles, max_steps=400000, budget_is='inconclusive', sample_every=499,
                  collect=None, keep_run=False, tolerate_thread_errors=False):
  """oracles: list of callables(run, res).  Returns RunResult."""
  res = RunResult()
  run, sim, reason = chartworld.run_chart(sc, sched, max_steps=max_steps)
  try:
    if run.fatal:
      res.violate('build-raised', {'host': sc['host'], 'build': sc['build']}, run.fatal)
    elif reason == 'budget':
      if budget_is == 'inconclusive':
        res.outcome = 'inconclusive'
        res.reason = 'step budget'
      else:
        budget_is(run, res)
    else:
      stuck = [t for t in sim.threads if t.role == 'client' and t.state != kernel.DONE]
      if stuck:
        res.violate('client-blocked', {'at': stuck[0].desc.split(':')[0]},
                    'the driving thread is blocked for ever at %s (host=%s)' % (stuck[0].desc, sc['host']))
      elif sim.thread_errors and not tolerate_thread_errors:
        common.thread_error_violations(sim, res)
      else:
        for o in oracles:
          o(run, res)
          if res.outcome == 'violation':
            break
    if not sc.get('malform'):
      for s in co.transition_signatures(run):
        res.nontrivial.append(hash(s))
    if collect is not None and not run.fatal:
      collect(run, res)
    if keep_run:
      res.run = run
    if res.outcome == 'violation' or (sched.get('seed', 0) % sample_every == 0):
      res.sample = sample_of(run, res)
  finally:
    common.finish(sim, res)
  return res


def sample_of(run, res):
  sc = run.sc
  sp = run.spec
  return {
    'host': sc['host'], 'build': sc['build'], 'start': sc['start'],
    'tree': {n: sp.parent[n] for n in sp.order},
    'inits': {n: sp.states[n]['init'] for n in sp.order if sp.states[n]['init']},
    'ops': sc['ops'][:12],
    'steps': [{'op': ob.op, 'state_after': ob.state, 'actions': co.obs_actions(ob.recs)[:14], 'exc': ob.exc}
              for ob in run.steps[:6]],
    'outcome': res.outcome,
  }
