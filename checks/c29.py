"""C29 - thread-safe attribute values belong to their instance."""
import random

from sim import kernel, seams, prims
from sim.runner import RunResult
from worlds import common
from checks import tsa_common as tc

PID = 'C29'
SCHEDULE_DEPENDENT = False
RULE = ('seeded histories over 2-4 instances of 1-2 classes built with MetaThreadSafeAttributes (1-2 attributes each; in 30% of the runs the classes define value-based __eq__/__hash__ so that distinct instances compare equal, in 40% __len__ or __bool__ so that instances are falsy): '
        'instance creation at arbitrary points, instances that die and are replaced by new ones (address reuse), instances made by copy.copy / copy.deepcopy / __dict__.update of a live one (independent from then on), assignments, augmented assignments and reads written as source-line '
        'statements, executed by 1-3 simulated threads taking turns; oracle: a per-instance store model - every read returns '
        'the value last stored on that very instance (0 for a fresh instance), whatever was stored on other instances or '
        'classes. Non-trivial = a read of an instance after a different instance of the same class was assigned; distinct = '
        'distinct (number of instances, classes, history shape) tuples.')
ASSUMPTIONS = ['no schedule dimension: threads take turns statement by statement (interleavings inside a statement are C27\'s subject)']
PROBES = ['read_after_foreign_write', 'instance_replaced', 'instance_copied']
PLAN = {
  'quick': {'strata': {'instances': 8000}, 'wall_s': 300, 'chunk': 100, 'min_conclusive': 1000},
  'thorough': {'strata': {'instances': 80000}, 'wall_s': 600, 'chunk': 250, 'min_conclusive': 1000},
}


def generate(seed, stratum, tier):
  rng = random.Random(seed)
  nclasses = rng.choice([1, 1, 2])
  attrs = ['a'] if rng.random() < 0.5 else ['a', 'b']
  ninst = rng.randrange(2, 5)
  inst = [{'cls': rng.randrange(nclasses), 'at': 0 if i < 2 else rng.randrange(0, 10)} for i in range(ninst)]
  ops = []
  val = 0
  for step in range(rng.randrange(4, 24)):
    live = [i for i, d in enumerate(inst) if d['at'] <= step]
    i = rng.choice(live)
    a = rng.choice(attrs)
    k = rng.choice(['assign', 'assign', 'aug', 'read', 'read', 'renew', 'aug_other', 'assign_other'])
    if rng.random() < 0.08:
      k = rng.choice(['copy', 'copy', 'dictcopy', 'deepcopy'])
    elif rng.random() < 0.08:
      k = 'aug_side'      # the right-hand side of an augmented assignment assigns the attribute of another instance
    val += 1
    other = rng.choice(live)
    ops.append({'thread': rng.randrange(3), 'inst': i, 'attr': a, 'kind': k, 'k': val * 3 + 1, 'step': step,
                'other': other, 'other_attr': a if k == 'aug_other' else rng.choice(attrs)})
  return {'nclasses': nclasses, 'attrs': attrs, 'instances': inst, 'ops': ops, 'value_equality': rng.random() < 0.3,
          'falsy': rng.choice([None, None, None, 'len', 'bool']),
          'sched': {'gran': 'line', 'policy': 'sticky', 's': 1.0}}


def shrink_candidates(sc):
  ops = sc['ops']
  for i in range(len(ops) - 1, -1, -1):
    yield dict(sc, ops=ops[:i] + ops[i + 1:])


_helper = []


def text(op):
  t = 'o%d.%s' % (op['inst'], op['attr'])
  if op['kind'] == 'renew':
    return 'pass  # o%d is dropped and a new instance takes its place' % op['inst']
  if op['kind'] in ('copy', 'dictcopy', 'deepcopy'):
    return 'pass  # o%d is dropped and replaced by a %s of o%d' % (op['inst'], {'copy': 'copy.copy', 'deepcopy': 'copy.deepcopy',
                                                                               'dictcopy': 'new object whose __dict__ was updated from that'}[op['kind']], op['other'])
  if op['kind'] == 'aug_side':
    if op['other'] == op['inst']:
      return '%s += %d' % (t, op['k'])
    return '%s += _setget(o%d, %d)   # _setget(o, k): o.a = k; return k' % (t, op['other'], op['k'])
  if op['kind'] == 'aug_other':
    return '%s += o%d.%s' % (t, op['other'], op['other_attr'])
  if op['kind'] == 'assign_other':
    return '%s = o%d.%s + %d' % (t, op['other'], op['other_attr'], op['k'])
  if op['kind'] == 'assign':
    return '%s = %d' % (t, op['k'])
  if op['kind'] == 'aug':
    return '%s += %d' % (t, op['k'])
  return 'x = %s' % t


def execute(sc, sched):
  res = RunResult()
  sim = common.new_sim(sc, sched, max_steps=100000)
  classes = [tc.make_class(sc['attrs'], 'Thing%d' % i, value_equality=sc.get('value_equality', False), falsy=sc.get('falsy')) for i in range(sc['nclasses'])]
  objs = {}
  model = {}
  log = []
  errors = []
  turn = [0]
  ops = sc['ops']
  codes = [tc.compile_script([text(op).split('   #')[0]]) for op in ops]
  helper_ns = {}
  if not _helper:
    import linecache
    src = 'def _setget(o, k):\n  o.a = k\n  return k\n'
    linecache.cache['<c29-helper>'] = (len(src), None, src.splitlines(True), '<c29-helper>')
    _helper.append(compile(src, '<c29-helper>', 'exec'))
  seams.enable_events_for([_helper[0]], opcode=False)
  exec(_helper[0], helper_ns)
  foreign = [False]
  renewed = set()
  copies = set()

  def client(k):
    for idx, op in enumerate(ops):
      if op['thread'] != k:
        continue
      if turn[0] != idx:
        sim.block(lambda idx=idx: turn[0] == idx, None, 'turn')
      # instances come to life at their creation step
      for i, d in enumerate(sc['instances']):
        if i not in objs and d['at'] <= op['step']:
          objs[i] = classes[d['cls']]()
          for a in sc['attrs']:
            model[(i, a)] = 0
      if op['kind'] == 'renew':
        # the instance dies (nothing else refers to it) and a fresh one of the same class is
        # created right away: CPython is likely to give it the same address
        i = op['inst']
        cls_i = classes[sc['instances'][i]['cls']]
        objs.pop(i, None)
        import gc
        gc.collect()
        objs[i] = cls_i()
        for a in sc['attrs']:
          model[(i, a)] = 0
        renewed.add(i)
        turn[0] = idx + 1
        continue
      if op['kind'] in ('copy', 'dictcopy', 'deepcopy'):
        # a second instance made by copying a live one: from then on the two are independent
        import copy as _copy
        i, j = op['inst'], op['other']
        if i != j and j in objs:
          src = objs[j]
          if op['kind'] == 'copy':
            new_obj = _copy.copy(src)
          elif op['kind'] == 'deepcopy':
            new_obj = _copy.deepcopy(src)
          else:
            new_obj = type(src).__new__(type(src))
            new_obj.__dict__.update(src.__dict__)
          objs[i] = new_obj
          copies.add(i)
          for a in sc['attrs']:
            model[(i, a)] = model[(j, a)]
          sim.probe('instance_copied')
        turn[0] = idx + 1
        continue
      ns = {'x': None, '_m': lambda i: None, '_setget': helper_ns['_setget']}
      for i, ob in objs.items():
        ns['o%d' % i] = ob
      try:
        exec(codes[idx], ns)
      except kernel.SimAbort:
        raise
      except BaseException as e:  # noqa
        import traceback
        errors.append((idx, type(e).__name__, traceback.format_exc()[-500:]))
        turn[0] = len(ops) + 1
        return
      key = (op['inst'], op['attr'])
      if op['kind'] == 'assign':
        model[key] = op['k']
      elif op['kind'] == 'aug':
        model[key] = model[key] + op['k']
      elif op['kind'] == 'aug_side':
        if op['other'] != op['inst']:
          model[(op['other'], 'a')] = op['k']
        model[key] = model[key] + op['k']
      elif op['kind'] == 'aug_other':
        model[key] = model[key] + model[(op['other'], op['other_attr'])]
      elif op['kind'] == 'assign_other':
        model[key] = model[(op['other'], op['other_attr'])] + op['k']
      else:
        log.append((idx, text(op), ns['x'], model[key]))
      turn[0] = idx + 1

  for k in range(3):
    sim.spawn(client, (k,), role='client')
  reason = sim.run()
  if reason == 'budget':
    res.outcome, res.reason = 'inconclusive', 'step budget'
  elif errors:
    res.violate('statement-raised', {'exc': errors[0][1]}, 'op#%d `%s` raised %s\n%s' % (errors[0][0], text(ops[errors[0][0]]), errors[0][1], errors[0][2]))
  elif turn[0] < len(ops):
    res.violate('blocked', {}, 'history stopped at op#%d `%s`: %s' % (turn[0], text(ops[turn[0]]), [(t.name, t.desc) for t in sim.threads if t.state != kernel.DONE]))
  else:
    for idx, txt, got, want in log:
      if got != want:
        fresh = not any(o['inst'] == ops[idx]['inst'] and o['attr'] == ops[idx]['attr'] and o['kind'] not in ('read', 'renew', 'copy', 'dictcopy', 'deepcopy') for o in ops[:idx]) and not any(o['kind'] == 'aug_side' and o['other'] == ops[idx]['inst'] and ops[idx]['attr'] == 'a' for o in ops[:idx])
        res.violate('foreign-value', {'fresh_instance': fresh},
                    'op#%d `%s` read %r but the value stored on that instance is %r\nhistory: %s' % (idx, txt, got, want, [text(o) for o in ops[:idx + 1]]))
        break
  # reach
  written = set()
  for idx, op in enumerate(ops):
    if op['kind'] == 'renew':
      sim.probe('instance_replaced')
      continue
    if op['kind'] in ('copy', 'dictcopy', 'deepcopy'):
      continue
    if op['kind'] != 'read':
      written.add((op['inst'], sc['instances'][op['inst']]['cls'], op['attr']))
    else:
      c = sc['instances'][op['inst']]['cls']
      if any(i != op['inst'] and cc == c and a == op['attr'] for i, cc, a in written):
        foreign[0] = True
  if foreign[0]:
    sim.probe('read_after_foreign_write')
    res.nontrivial.append(hash((len(sc['instances']), sc['nclasses'], tuple((o['inst'], kernel._stable(o['kind'])) for o in ops[:8]))))
  if res.outcome == 'violation' or sched.get('seed', 0) % 199 == 0:
    res.sample = {'classes': sc['nclasses'], 'attrs': sc['attrs'], 'history': [text(o) for o in ops[:16]],
                  'reads': [(t, repr(g), repr(w)) for _, t, g, w in log[:8]]}
  common.finish(sim, res)
  return res
