"""C06 - the fabric delivers each publication once to every subscriber and to no one else."""
import random

from sim import kernel, seams
from sim.runner import RunResult
from worlds import common, fabric as fw

PID = 'C06'
SCHEDULE_DEPENDENT = True
RULE = ('the real ActiveFabricSource with both delivery threads; 2-5 subscriber queues (plain deques and LockingDeques, '
        'several distinct queues with equal contents: all empty or holding the same events), 1-3 client threads issuing '
        '3-25 subscribe/publish calls (re-subscription in every position, both kinds on one queue, int and Event forms of '
        'the signal, the same event object published twice while a consumer has already taken it from one queue) interleaved with the delivery threads by a seeded scheduler (sticky/PCT/starvation of a delivery '
        'thread, line and bytecode granularity in subscribe). Oracle at quiescence: for every publication and every '
        '(queue, kind) whose subscribe call returned before the publish call began: exactly one delivery of that event to '
        'that queue by the delivery thread of that kind; never more than one; no delivery to a (queue, kind) that never '
        'asked for that signal; after every subscribe call each registry list holds each queue identity at most once and '
        'still holds every identity subscribed before. Non-trivial = a re-subscription or a second distinct queue on the '
        'same signal; distinct = distinct (queue contents pattern, sequence of op kinds, delivery interleaving) tuples.')
ASSUMPTIONS = ['publications concurrent with a subscription may or may not reach it (0 or 1 delivery accepted)']
PROBES = ['resubscription', 'equal_content_queues_same_signal']
PLAN = {
  'quick': {'strata': {'sub-pub': 5000, 'stop-restart': 3000}, 'wall_s': 300, 'chunk': 50, 'min_conclusive': 1000},
  'thorough': {'strata': {'sub-pub': 150000, 'stop-restart': 50000}, 'wall_s': 900, 'chunk': 100, 'min_conclusive': 1000},
}


def generate_restart(rng):
  # the fabric is stopped and started again between (and right after) publications, with lagging or stalled delivery
  # threads: what was published while it ran is owed exactly once, at the latest after the final start
  nq = rng.randrange(1, 4)
  queues = [{'kind': rng.choice(['deque', 'deque', 'locking']), 'prefill': 0} for _ in range(nq)]
  sigs = ['SA', 'SB'][:rng.randrange(1, 3)]
  c0 = [['start']]
  for _ in range(rng.randrange(1, 5)):
    c0.append(['subscribe', rng.randrange(nq), rng.choice(sigs), rng.choice(['fifo', 'lifo']), 'event'])
  for _ in range(rng.randrange(4, 13)):
    k = rng.choices(['publish', 'stop', 'start', 'sleep', 'clear'], weights=[6, 2, 2, 1, 1])[0]
    if k == 'clear':
      # every subscription is dropped (on a running or a stopped fabric), then some queues subscribe afresh
      c0.append(['clear'])
      for _ in range(rng.randrange(1, 4)):
        c0.append(['subscribe', rng.randrange(nq), rng.choice(sigs), rng.choice(['fifo', 'lifo']), 'event'])
    elif k == 'publish':
      c0.append(['publish', rng.choice(sigs), rng.choice([None, None, 1, 5])])
    elif k == 'sleep':
      c0.append(['sleep', 0.01])
    else:
      c0.append([k])
  c0 += [['start'], ['sleep', 0.05]]
  clients = [c0]
  if rng.random() < 0.3:
    clients.append([['sleep', 0.001]] + [['publish', rng.choice(sigs), None] for _ in range(rng.randrange(1, 4))])
  victims = [rng.choice(['fabric.fifo', 'fabric.lifo'])]
  sc = {'queues': queues, 'clients': clients, 'signals': sigs, 'stratum': 'stop-restart',
        'sched': common.draw_sched(rng, grans=('sync', 'line'), expected_steps=500, victims=victims)}
  if rng.random() < 0.4:
    sc['stalls'] = common.draw_stalls(rng, 400, rate=1.0, n=(1, 4), durations=(50000, 1500000, 5000000))
    sc['stall_roles'] = ['fabric.fifo', 'fabric.lifo']
  return sc


def generate(seed, stratum, tier):
  rng = random.Random(seed)
  if stratum == 'stop-restart':
    return generate_restart(rng)
  big = common.deep(rng)
  nq = common.span(rng, 2, 6, big)
  prefill = rng.choice([0, 0, 1, 2])
  queues = [{'kind': rng.choice(['deque', 'deque', 'locking']), 'prefill': prefill if rng.random() < 0.8 else 0} for _ in range(nq)]
  sigs = ['SA', 'SB', 'SC'][:rng.randrange(1, 4)]
  nclients = common.span(rng, 1, 4, big)
  total = common.span(rng, 3, 26, big, 3)
  clients = [[] for _ in range(nclients)]
  clients[0].append(['start'])
  for _ in range(total):
    c = rng.randrange(nclients)
    if rng.random() < 0.55:
      clients[c].append(['subscribe', rng.randrange(nq), rng.choice(sigs), rng.choice(['fifo', 'fifo', 'lifo', 'default']), rng.choice(['event', 'int'])])
    else:
      clients[c].append(['publish', rng.choice(sigs), rng.choice([None, None, 1, 5, 1000])])
      r = rng.random()
      if r < 0.15:
        # a consumer takes what one plain queue received so far, then the same event object is published again
        plain = [i for i, q in enumerate(queues) if q['kind'] == 'deque']
        if plain:
          clients[c].append(['sleep', 0.01])
          clients[c].append(['pop', rng.choice(plain)])
        clients[c].append(['republish'])
      elif r < 0.25:
        clients[c].append(['republish'])
  # the other clients wait until the fabric runs
  for c in range(1, nclients):
    clients[c].insert(0, ['sleep', 0.001])
  return {'queues': queues, 'clients': clients, 'signals': sigs, 'stalls': common.draw_stalls(rng, 600, rate=0.3),
          'sched': common.draw_sched(rng, grans=('sync', 'line', 'opcode'), weights=(1, 3, 2), expected_steps=600,
                                     victims=[rng.choice(['fabric.fifo', 'fabric.lifo'])])}


def shrink_candidates(sc):
  if sc.get('stalls'):
    yield dict(sc, stalls={})
  cl = sc['clients']
  for i, s in enumerate(cl):
    for j in range(len(s) - 1, -1, -1):
      if s[j][0] in ('start',):
        continue
      yield dict(sc, clients=cl[:i] + [s[:j] + s[j + 1:]] + cl[i + 1:])
  if len(cl) > 1:
    # merge the last client into the first
    yield dict(sc, clients=[cl[0] + [o for o in cl[-1] if o[0] != 'sleep']] + cl[1:-1])
  qs = sc['queues']
  if any(q.get('prefill') for q in qs):
    yield dict(sc, queues=[dict(q, prefill=0) for q in qs])
  if any(q['kind'] == 'locking' for q in qs):
    yield dict(sc, queues=[dict(q, kind='deque') for q in qs])
  if sc['sched'].get('gran') != 'sync':
    yield dict(sc, sched=dict(sc['sched'], gran='sync'))


def execute(sc, sched):
  res = RunResult()
  run, sim, reason = fw.run_fabric(sc, sched)
  try:
    judge(sc, run, sim, reason, res)
    reach(sc, run, sim, res)
    if res.outcome == 'violation' or sched.get('seed', 0) % 499 == 0:
      res.sample = {'queues': sc['queues'], 'clients': sc['clients'],
                    'deliveries': [(d[1], 'q%d' % d[2], d[3], d[4]) for d in run.deliveries()[:20]], 'outcome': res.outcome}
  finally:
    common.finish(sim, res)
  return res


def judge(sc, run, sim, reason, res):
  if reason == 'budget':
    res.outcome, res.reason = 'inconclusive', 'step budget'
    return
  if run.errors:
    k, i, op, typ, tb = run.errors[0]
    res.violate('call-raised', {'op': op[0], 'exc': typ}, 'client %d op#%d %s raised %s\n%s' % (k, i, op, typ, tb))
    return
  if sim.thread_errors:
    common.thread_error_violations(sim, res)
    return
  stuck = [t for t in sim.threads if t.role in ('client', 'main') and t.state != kernel.DONE]
  if stuck:
    res.violate('call-blocked', {'at': stuck[0].desc.split(':')[0]}, 'client parked for ever at %s' % stuck[0].desc)
    return
  if run.registry_problems:
    p = run.registry_problems[0]
    res.violate('registry-' + p[0], {'kind': p[1]}, 'after op %s the %s registry of %s is damaged: %s' % (p[3], p[1], p[2], p[4]))
    return
  f = run.fabric
  if f.fifo_fabric_queue._qsize() or f.lifo_fabric_queue._qsize():
    res.violate('undelivered-at-quiescence', {}, 'publications still sit in the fabric queues although nothing can run')
    return
  dels = run.deliveries()
  count = {}
  first_seq = {}
  for seq, role, qi, op, uid, tn in dels:
    kind = 'fifo' if role == 'fabric.fifo' else ('lifo' if role == 'fabric.lifo' else role)
    key = (uid, qi, kind)
    count[key] = count.get(key, 0) + 1
    first_seq.setdefault(key, seq)
  for key, n in sorted(count.items()):
    uid, qi, kind = key
    ncalls = len(run.pubs[uid]['calls'])
    if n > ncalls:
      res.violate('delivered-twice', {'kind': kind}, 'event %s (%s), published %d time(s), was delivered %d times to q%d by the %s thread' % (uid, run.pubs[uid]['sig'], ncalls, n, qi, kind))
      return
    # (a subscription dropped by clear() before the publication was made no longer counts)
    asked = [s for s in run.subs if s['q'] == qi and s['sig'] == run.pubs[uid]['sig'] and s['kind'] == kind and s['begin'] < first_seq[key]
             and (s.get('cleared_at') is None or s['cleared_at'] > run.pubs[uid]['begin'])]
    if not asked:
      res.violate('foreign-delivery', {'kind': kind},
                  'event %s (%s) was delivered to q%d by the %s thread, but that queue never subscribed to %s as %s; subscriptions: %s' % (
                    uid, run.pubs[uid]['sig'], qi, kind, run.pubs[uid]['sig'], kind,
                    [(s['q'], s['sig'], s['kind']) for s in run.subs]))
      return
  for uid, p in sorted(run.pubs.items()):
    if p['end'] is None:
      continue
    live = [s for s in run.subs if s['sig'] == p['sig'] and s['end'] is not None and not s.get('cleared')]     # never dropped by clear()
    keys = set((s['q'], s['kind']) for s in live)
    for qi, kind in sorted(keys):
      first_sub_end = min(s['end'] for s in live if s['q'] == qi and s['kind'] == kind)
      # one delivery is owed for every publish call of this event object that began after the subscription was made
      owed = sum(1 for b, e in p['calls'] if e is not None and b > first_sub_end)
      if sc.get('stratum') == 'stop-restart' and not (p.get('running') and p.get('running_after')):
        owed = 0      # published while the fabric was stopped (or being stopped/started): the statement asks nothing
      got = count.get((uid, qi, kind), 0)
      if got < owed:
        res.violate('not-delivered', {'kind': kind, 'republished': len(p['calls']) > 1},
                    'event %s (%s) was published %d time(s) after q%d subscribed (%s) but delivered %d time(s) to it; subscriptions in call order: %s' % (
                      uid, p['sig'], owed, qi, kind, got, [(s['q'], s['sig'], s['kind']) for s in run.subs]))
        return


def reach(sc, run, sim, res):
  seen = set()
  resub = False
  multi = False
  for s in run.subs:
    key = (s['q'], s['sig'], s['kind'])
    if key in seen:
      resub = True
    if any(k[1] == s['sig'] and k[2] == s['kind'] and k[0] != s['q'] for k in seen):
      multi = True
    seen.add(key)
  if resub:
    sim.probe('resubscription')
  if multi and any(q.get('prefill', 0) == sc['queues'][0].get('prefill', 0) for q in sc['queues'][1:]):
    sim.probe('equal_content_queues_same_signal')
  if resub or multi:
    kinds = tuple(kernel._stable(o[0]) for c in sc['clients'] for o in c)
    res.nontrivial.append(hash((tuple(q.get('prefill', 0) for q in sc['queues']), kinds, sim.switch_signature())))
