"""C20 - the trace has one record per transition and none for other steps."""
import random

from checks import chart_common as cc
from models import chart_oracles as co

PID = 'C20'
SCHEDULE_DEPENDENT = False
RULE = ('seeded instrumented charts (spied hand-written, template, factory and to_code builds) on instrumented, queued, '
        'active-object and Factory hosts, event histories incl. handled, declined and ignored events, reads of trace(), '
        'trace ring sizes from {5, 500}; in the active-object stratum also steps that only process subscribe/publish meta '
        'events queued before start; oracle: start_at appends one record top -> start state (the resting state after '
        'initial transitions is accepted too); every later step appends exactly one record (previous state, signal, new '
        'state) iff the reference model says the event caused a transition, nothing otherwise; the most recent records are '
        'kept in order; every record carries a timestamp and trace() can be printed. Non-trivial = a history with both '
        'transition and non-transition steps; distinct = distinct (host, build, sequence of step kinds prefix) tuples.')
ASSUMPTIONS = ['no schedule dimension', 'start record: the statement says "top -> start state"; when the start state has initial transitions both the start state and the resting state are accepted']
PROBES = ['meta_only_step']
PLAN = {
  'quick': {'strata': {'trace': 5000, 'meta': 1500}, 'wall_s': 300, 'chunk': 100, 'min_conclusive': 1000},
  'thorough': {'strata': {'trace': 120000, 'meta': 40000}, 'wall_s': 900, 'chunk': 250, 'min_conclusive': 1000},
}
ORACLES = [co.check_trace]
COMBOS = [c for c in cc.COMBOS if c[0] != 'plain' and c[1] != 'closure']


def generate(seed, stratum, tier):
  rng = random.Random(seed)
  if stratum == 'meta':
    sc = cc.gen_chart_scenario(rng, combos=[('ao', 'closure-spied'), ('ao', 'template')], ops=('ev', 'read'), weights=(5, 1),
                               nops=(2, 12), flags=False)
    # 'SQ' is a signal nobody subscribes to: publishing it only exercises the meta step
    sc['pre_start'] = [rng.choice([['subscribe', rng.choice(sc['spec']['signals'])], ['publish', 'SQ']])
                       for _ in range(rng.randrange(1, 3))]
    if not any(o[0] == 'read' for o in sc['ops']):
      sc['ops'].append(['read'])
    return sc
  combo = rng.choice(COMBOS)
  kw, ops, weights = {}, ('ev', 'read'), (6, 1)
  if combo[0] in ('queued', 'ao') and rng.random() < 0.5:
    # handlers (also entry, exit and init actions) post and set aside events while the step is being recorded
    kw = {'fx_rate': rng.choice([0.2, 0.4]), 'fx_ops': ('post_fifo', 'defer', 'defer_new', 'recall') + (('clear_spy',) if rng.random() < 0.3 else ())}
    if combo[0] == 'queued':
      ops, weights = ('ev', 'read', 'defer', 'recall', 'rtc'), (6, 1, 1, 1, 2)
  if combo[0] in ('queued', 'ao', 'factory') and rng.random() < 0.3:
    ops, weights = tuple(ops) + ('clear_trace', 'clear_spy'), tuple(weights) + (0.7, 0.3)
  if rng.random() < 0.3:
    # is_in/child_state asked between steps: what the next record says must not depend on them
    ops, weights = tuple(ops) + ('is_in', 'child'), tuple(weights) + (1.5, 1.5)
  sc = cc.gen_chart_scenario(rng, combos=[combo], spec_kw=kw, ops=ops, weights=weights, nops=(4, 30), flags=False)
  if combo[0] == 'queued' and rng.random() < 0.2:
    sc['pre_start'] = [['defer', rng.choice(sc['spec']['signals'])]]
  if rng.random() < 0.3:
    sc['rings'] = {'trc': 5}
  if rng.random() < 0.35:
    # whatever the clock says (coarse, frozen, stepping back): one record per transition
    kind = rng.choice(['coarse', 'coarse', 'frozen', 'jump'])
    sc['clock'] = {'kind': kind, 'q_us': rng.choice([1000, 15600, 1000000])}
    if kind == 'jump':
      sc['clock']['jumps'] = {str(rng.randrange(1, 300)): rng.choice([-3600_000_000, -1, 5_000_000]) for _ in range(rng.randrange(1, 3))}
    # the same transition several times in a row (records that differ in nothing but their time)
    ev_ops = [o for o in sc['ops'] if o[0] == 'ev']
    if ev_ops:
      o = rng.choice(ev_ops)
      k = sc['ops'].index(o)
      sc['ops'][k:k] = [list(o) for _ in range(rng.randrange(1, 4))]
  return sc


shrink_candidates = cc.shrink_chart


def collect(run, res):
  res.nontrivial[:] = []
  kinds = []
  for ob in run.steps:
    if ob.pred and ob.op[0] in ('ev',):
      ps = ob.pred.get('steps') if 'steps' in ob.pred else [ob.pred]
      kinds.extend(p['kind'][0] for p in ps if p)
  if 't' in kinds and ('h' in kinds or 'i' in kinds):
    res.nontrivial.append(hash((run.host, run.build.kind, tuple(kinds[:6]))))
  if run.sc.get('pre_start'):
    run.sim.probe('meta_only_step')


def execute(sc, sched):
  return cc.run_and_judge(sc, sched, ORACLES, collect=collect)
