"""C30 - singletons stay single even when first requested concurrently.

World: 2-6 simulated client threads make the first request for a singleton at the same
time; the scheduler may switch at every bytecode of SingletonDecorator.__call__.
Oracle: every object returned in the run is the same object."""
import random

from sim import kernel, seams
from sim.runner import RunResult
from worlds import common

PID = 'C30'
SCHEDULE_DEPENDENT = True
RULE = ('2-6 client threads request the same singleton for the first time under a seeded scheduler '
        '(sticky/PCT, sync/line/opcode granularity inside SingletonDecorator.__call__; injected stalls of up to minutes of virtual time in the middle of a request); targets: the '
        'declared names ActiveFabric, FiberThreadEvent, InstrumentionWriter after an in-place reset, '
        'fresh SingletonDecorator objects around the five real classes, concurrent ActiveObject() '
        'construction, and threads that ask for different singletons at once (fabric, writer, run event: the run event any of them holds must be the shared one). Non-trivial = at least two threads were inside the first request at the same time '
        '(their request intervals overlap); distinct = distinct (target, interleaving of request '
        'begin/end events) tuples.')
ASSUMPTIONS = ['Signal()/ReturnStatus() are exercised through fresh decorators around SignalSource/'
               'ReturnStatusSource: the process-wide signals object must keep its identity across runs']
PROBES = ['overlapping_first_requests']

TARGETS = ['ActiveFabric', 'FiberThreadEvent', 'InstrumentionWriter',
           'fresh:ActiveFabricSource', 'fresh:SourceThreadEvent', 'fresh:InstrumenationWriterClass',
           'fresh:SignalSource', 'fresh:ReturnStatusSource', 'ActiveObject', 'mixed']
MIXED = ['ActiveFabric', 'InstrumentionWriter', 'FiberThreadEvent']     # 'mixed': the threads ask for different ones at once
NOT_ASKED = type('NotAsked', (), {'__slots__': ()})()      # placeholder in a slot a thread did not ask for

PLAN = {
  'quick': {'strata': {'concurrent-first-request': 10000}, 'wall_s': 300, 'chunk': 100, 'min_conclusive': 500},
  'thorough': {'strata': {'concurrent-first-request': 150000}, 'wall_s': 600, 'chunk': 250, 'min_conclusive': 500},
}


def generate(seed, stratum, tier):
  rng = random.Random(seed)
  sc = {
    'target': rng.choice(TARGETS),
    'threads': common.span(rng, 2, 7, common.deep(rng)),
    'requests': rng.randrange(1, 3),
    'sched': common.draw_sched(rng, grans=('sync', 'line', 'opcode'), weights=(1, 3, 4),
                               expected_steps=60, policies=('sticky', 'pct')),
    # the "slow node" fault: a thread is descheduled for up to minutes of virtual time in the middle of a first request
    'stalls': common.draw_stalls(rng, 60, rate=0.4, n=(1, 3), durations=(1000, 500000, 1500000, 30000000, 300000000)),
  }
  return sc


def shrink_candidates(sc):
  if sc.get('stalls'):
    yield dict(sc, stalls={})
    if len(sc['stalls']) > 1:
      for k in sorted(sc['stalls']):
        yield dict(sc, stalls={kk: v for kk, v in sc['stalls'].items() if kk != k})
  if sc['threads'] > 2:
    yield dict(sc, threads=sc['threads'] - 1)
  if sc['requests'] > 1:
    yield dict(sc, requests=1)
  if sc['sched'].get('gran') == 'opcode':
    yield dict(sc, sched=dict(sc['sched'], gran='line'))


def execute(sc, sched):
  res = RunResult()
  sim = common.new_sim(sc, sched, max_steps=50000)
  if sc.get('stalls'):
    sim.stall_plan = {int(k): v for k, v in sc['stalls'].items()}
  ao = seams.mods['activeobject']
  ev = seams.mods['event']
  target = sc['target']
  if target.startswith('fresh:'):
    cname = target.split(':', 1)[1]
    klass = getattr(ao, cname, None) or getattr(ev, cname)
    maker = seams.mods['singleton'].SingletonDecorator(klass)
    seams.adopt_locks(maker)
  elif target in ('ActiveObject', 'mixed'):
    maker = None
  else:
    maker = getattr(ao, target)
  got = []

  def request(k=None):
    if target == 'mixed':
      # slot per kind; a thread asks for one kind (which one depends on the thread), the final request for all of them
      return tuple(getattr(ao, n)() if k is None or (k + sc['threads']) % len(MIXED) == j else NOT_ASKED for j, n in enumerate(MIXED))
    if maker is not None:
      return (maker(),)
    a = ao.ActiveObject(name='x')
    return (a.fabric, a.writer, ao.FiberThreadEvent())

  def client(k):
    for i in range(sc['requests']):
      sim.record('c30', 'req', 'begin', k)
      o = request(k)
      sim.record('c30', 'req', 'end', k)
      got.append((k, i, o))

  for k in range(sc['threads']):
    sim.spawn(client, (k,), role='client')
  reason = sim.run()
  if reason == 'budget':
    res.outcome = 'inconclusive'
    res.reason = 'step budget'
  elif sim.thread_errors:
    common.thread_error_violations(sim, res, 'request-raised')
  elif any(t.state != kernel.DONE for t in sim.threads if t.role == 'client'):
    res.violate('request-blocked', {'target': target.split(':')[0]},
                'a first request never returned: ' + ', '.join('%s@%s' % (t.name, t.desc) for t in sim.threads if t.state != kernel.DONE))
  else:
    later = request()
    for slot in range(len(later)):
      ids = set(id(o[slot]) for _, _, o in got if o[slot] is not NOT_ASKED)
      ids.add(id(later[slot]))
      if len(ids) != 1:
        res.violate('two-instances', {'kind': 'declared' if maker is None or not target.startswith('fresh:') else 'fresh'},
                    'target %s slot %d: %d distinct objects returned to %d threads (%s)' % (
                      target, slot, len(ids), sc['threads'],
                      [(k, i, type(o[slot]).__name__, 'obj%d' % sorted(ids).index(id(o[slot]))) for k, i, o in got if o[slot] is not NOT_ASKED]))
        break
    if res.outcome != 'violation' and maker is None:
      # the run event is one object wherever it is held: whatever the returned objects keep of its type is the shared one
      shared = ao.FiberThreadEvent()
      held = [(type(x).__name__, a) for o in [g[2] for g in got] + [later] for x in o if x is not NOT_ASKED and hasattr(x, '__dict__')
              for a, v in sorted(vars(x).items()) if type(v) is type(shared) and v is not shared]
      if held:
        res.violate('two-instances', {'kind': 'run-event-held'},
                    'target %s: %s hold(s) a run event that is not the one FiberThreadEvent() returns' % (target, sorted(set(held))))
  # reach: did two first requests overlap?
  open_, overlap, order = set(), False, []
  first_done = False
  for seq, tn, kind, label, op, detail in sim.history:
    if kind != 'c30':
      continue
    order.append((op == 'begin', detail))
    if op == 'begin':
      if open_ and not first_done:
        overlap = True
      open_.add(detail)
    else:
      open_.discard(detail)
      first_done = True
  if overlap:
    sim.probe('overlapping_first_requests')
    res.nontrivial.append(hash((kernel._stable(target), tuple(order))))
  if sched.get('seed', 0) % 997 == 0 or res.outcome == 'violation':
    res.sample = {'scenario': sc, 'request_events': [('begin' if b else 'end', k) for b, k in order][:40],
                  'overlap': overlap, 'outcome': res.outcome}
  common.finish(sim, res)
  return res
