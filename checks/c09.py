"""C09 - lifo subscriptions put events at the front of an active object's queue."""
import random

from sim import kernel, seams
from sim.runner import RunResult
from worlds import common, ao as aw
from checks import ao_common as ac

PID = 'C09'
SCHEDULE_DEPENDENT = True
RULE = ('1-2 real ActiveObjects subscribe to a signal with queue_type fifo, lifo or both; clients then post 1-4 events and '
        'publish while the scheduler starves the consumer thread, so that events are pending when a delivery thread delivers '
        '(the stalled consumer is the injected fault). Oracle on the linearised history of the object\'s pending-event deque: a '
        'delivery made for a lifo subscription puts the event at index 0 (as post_lifo would), one made for a fifo subscription '
        'puts it last (as post_fifo would), and every publication is delivered exactly once per subscribed kind; in part of the runs a plain deque (a monitor) is subscribed to the same signal before or after the objects. Non-trivial = a delivery made while >= 1 event was pending; distinct = distinct '
        '(subscription kind, number pending at delivery, delivering thread) tuples.')
ASSUMPTIONS = ['anchor: docs/source/recipes.rst ("subscribes in a lifo way -> posted with post_lifo") and glossary.rst']
PROBES = ['delivery_with_pending_events']
PLAN = {
  'quick': {'strata': {'pending': 3000, 'fabric-stop': 1000}, 'wall_s': 300, 'chunk': 50, 'min_conclusive': 800},
  'thorough': {'strata': {'pending': 80000, 'fabric-stop': 30000}, 'wall_s': 900, 'chunk': 100, 'min_conclusive': 800},
}


def generate(seed, stratum, tier):
  rng = random.Random(seed)
  nobj = rng.choice([1, 1, 2])
  objs = aw.default_objects(nobj)
  for o in objs:
    o['spied'] = rng.random() < 0.6          # states with and without the spy decorator
  c0 = [['start', i] for i in range(nobj)]
  kinds = {}
  for i in range(nobj):
    k = rng.choice(['lifo', 'lifo', 'fifo', 'both'])
    kinds[i] = k
    for kk in (['lifo', 'fifo'] if k == 'both' else [k]):
      c0.append(['subscribe', i, 'SD', kk])
  if stratum == 'pending' and rng.random() < 0.25:
    # a monitor: a plain deque subscribed to the same signal on the same fabric, before or after the objects
    c0.insert(rng.choice([nobj, len(c0)]), ['tap', 0, 'SD', rng.choice(['lifo', 'lifo', 'fifo'])])
  c0.append(['await_idle'])
  burst = []
  for _ in range(rng.randrange(1, 5)):
    burst.append([rng.choice(['post_fifo', 'post_lifo']), rng.randrange(nobj), rng.choice(['SA', 'SB'])])
  for _ in range(rng.randrange(1, 3)):
    burst.insert(rng.randrange(len(burst) + 1), ['publish', rng.randrange(nobj), 'SD', rng.choice([None, 1])])
  if stratum == 'fabric-stop':
    # the fabric is stopped while publications still wait in it (lagging delivery threads) and started again: whoever
    # hands a waiting publication to the object, and whenever, it goes to the end its subscription names
    burst += [['fabric_stop'], ['fabric_start'], ['sleep', 0.05]]
  clients = [c0 + burst]
  if rng.random() < 0.4:
    clients.append([['sleep', 0.001]] + [[rng.choice(['post_fifo', 'post_lifo']), rng.randrange(nobj), 'SC'] for _ in range(rng.randrange(1, 3))])
  sd = {'gran': rng.choice(['sync', 'line']), 'policy': 'starve', 's': rng.choice([0.5, 0.9]), 'victims': ['consumer'],
        'start': rng.randrange(0, 40), 'len': rng.choice([400, 2000, 10000])}
  if stratum == 'fabric-stop':
    sd['victims'] = rng.choice([['consumer', 'fabric.lifo', 'fabric.fifo'], ['fabric.lifo', 'fabric.fifo'], ['consumer', 'fabric.lifo']])
  cap = 500
  if stratum == 'pending' and rng.random() < 0.3:
    # a small queue: the delivery can find it full (every wake-up token in use); a lifo delivery still goes to the front
    cap = rng.choice([2, 3, 4, 6])
    clients[0] += [[rng.choice(['post_fifo', 'post_lifo']), rng.randrange(nobj), rng.choice(['SA', 'SB'])] for _ in range(cap)]
    clients[0].append(['publish', rng.randrange(nobj), 'SD', None])
  return {'objects': objs, 'queue_size': cap, 'clients': clients, 'kinds': {str(k): v for k, v in kinds.items()}, 'sched': sd, 'stratum': stratum}


def shrink_candidates(sc):
  cl = sc['clients']
  for i, s in enumerate(cl):
    for j in range(len(s) - 1, -1, -1):
      if s[j][0] in ('start', 'subscribe', 'await_idle', 'tap'):
        continue
      yield dict(sc, clients=cl[:i] + [s[:j] + s[j + 1:]] + cl[i + 1:])
  if len(cl) > 1:
    yield dict(sc, clients=cl[:1])


def execute(sc, sched):
  res = RunResult()
  run, sim, reason = aw.run_ao(sc, sched, max_steps=250000)
  try:
    if ac.base_judge(run, sim, reason, res):
      for oi in range(len(run.objs)):
        q = ac.replay_queue(run, oi)
        for seq, tn, op, uid, t_us, index_after, len_before in q['adds']:
          role = tn.split('#')[0]
          if uid not in run.pubs:
            continue
          # the end is named by the subscription: an object that subscribed in one way only gets every delivery at that
          # end, whichever thread hands it over; one that subscribed both ways gets one at each end (told by the thread)
          mine = sorted(set(s_['kind'] for s_ in run.subs if s_['obj'] == oi and s_['sig'] == run.pubs[uid]['sig']))
          if len(mine) == 1:
            kind = mine[0]
          elif role in ('fabric.fifo', 'fabric.lifo'):
            kind = 'lifo' if role == 'fabric.lifo' else 'fifo'
          else:
            continue
          if len_before >= 1:
            sim.probe('delivery_with_pending_events')
            res.nontrivial.append(hash((kind, min(len_before, 5), op == 'append')))
          cap_ = run.objs[oi].locking_deque.deque.maxlen
          at_front = index_after == 0
          at_back = index_after == (len_before if cap_ is None else min(len_before, cap_ - 1))     # on a full queue the oldest made room
          ok = at_front if kind == 'lifo' else at_back
          if not ok and res.outcome != 'violation':
            res.violate('delivery-end', {'thread': role, 'op': op},
                        '%s subscribed to %s as %s; event %s was delivered with %s (%d event(s) pending, it landed at index %d): a %s subscription must place it at the %s' % (
                          run.names[oi], run.pubs[uid]['sig'], kind, uid, op, len_before, index_after, kind, 'front' if kind == 'lifo' else 'back'))
      if res.outcome != 'violation':
        # the subscriptions were made (and the system was idle) before anything was published:
        # every publication owes one delivery per subscribed kind
        for uid, p in sorted(run.pubs.items()):
          if p['end'] is None:
            continue
          for oi in range(len(run.objs)):
            kinds = sorted(set(s['kind'] for s in run.subs if s['obj'] == oi and s['sig'] == p['sig'] and s['end'] is not None))
            q = ac.replay_queue(run, oi)
            # one delivery per subscribed kind, whichever thread makes it
            n = sum(1 for a in q['adds'] if a[3] == uid)
            if kinds and n != len(kinds):
              by_role = sorted(a[1].split('#')[0] for a in q['adds'] if a[3] == uid)
              missing = [k for k in kinds if ('fabric.' + k) not in by_role] or kinds
              res.violate('delivery-missing-for-kind', {'kind': missing[0], 'n': n, 'both': len(kinds) == 2},
                          '%s subscribed to %s as %s; event %s was delivered %d time(s) (by %s), expected one delivery per subscribed kind' % (
                            run.names[oi], p['sig'], kinds, uid, n, by_role))
            if res.outcome == 'violation':
              break
          if res.outcome == 'violation':
            break
    if res.outcome == 'violation' or sched.get('seed', 0) % 499 == 0:
      res.sample = {'clients': sc['clients'], 'sched': sc['sched'],
                    'queue_ops_ao1': [(tn, op, str(p)) for _, tn, op, p, _ in (run.queue_ops(0)[:20] if run.objs else [])]}
  finally:
    common.finish(sim, res)
  return res
