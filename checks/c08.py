"""C08 - fabric delivers by priority, and equal priorities in publish order."""
import random

from sim import kernel, seams
from sim.runner import RunResult
from worlds import common, fabric as fw

PID = 'C08'
SCHEDULE_DEPENDENT = True
RULE = ('the real fabric with 1-3 subscriber queues; 1-2 client threads publish bursts of 3-12 events (some before the fabric is started, some with a redundant start() in between) with priorities from a '
        'small set (many ties) while a delivery thread is starved by the scheduler so that the fabric queues hold >= 3 items '
        '(the lag is the injected fault; with 2-3 publishers one of them may also be stalled in the middle of publish() while the others go on); oracle evaluated at every get of a delivery thread on the real contents of that '
        'fabric queue: no queued event has a smaller priority number than the one taken, and no queued event of equal '
        'priority was published before it (publish call returned before the other publish call began - for overlapping '
        'publish calls of two threads no order is demanded); the same rule is checked again on the order in which the events arrive in each subscriber queue. Second stratum: one client stops and restarts the fabric while another keeps publishing. Non-trivial = a get that saw >= 3 queued items with a priority '
        'tie; distinct = distinct (priority sequence, queue length at get) tuples.')
ASSUMPTIONS = ['the stop wake-up item (priority 1 by design) is not a publication and is left out of the order']
PROBES = ['fabric_get_with_3_or_more_items', 'fabric_get_with_priority_tie']
PLAN = {
  'quick': {'strata': {'bursts': 7000, 'restart': 3000}, 'wall_s': 300, 'chunk': 50, 'min_conclusive': 1000},
  'thorough': {'strata': {'bursts': 120000, 'restart': 50000}, 'wall_s': 900, 'chunk': 100, 'min_conclusive': 1000},
}


def generate_restart(rng):
  # publications land while the fabric is being stopped, then it is started again: whatever waits in it still leaves
  # it by priority and, among equals, in publish order
  nq = rng.randrange(1, 3)
  queues = [{'kind': 'deque', 'prefill': 0} for _ in range(nq)]
  sigs = ['SA']
  prios = rng.choice([[1000], [5, 5, 7], [None, 1000]])
  c0 = [['start']] + [['subscribe', qi, 'SA', rng.choice(['fifo', 'lifo']), 'event'] for qi in range(nq)]
  for _ in range(rng.randrange(1, 5)):
    c0.append(['publish', 'SA', rng.choice(prios)])
  c0.append(['stop'])
  for _ in range(rng.randrange(0, 3)):
    c0.append(['publish', 'SA', rng.choice(prios)])
  c0 += [['start'], ['sleep', 0.05]]
  c1 = [['sleep', 0.001]] + [['publish', 'SA', rng.choice(prios)] for _ in range(rng.randrange(2, 7))]
  victims = [rng.choice(['fabric.fifo', 'fabric.lifo'])] if rng.random() < 0.6 else ['fabric.fifo', 'fabric.lifo']
  sd = {'gran': rng.choice(['sync', 'line']), 'policy': 'starve', 's': rng.choice([0.5, 0.9]), 'victims': victims,
        'start': rng.randrange(0, 60), 'len': rng.choice([100, 400, 2000])}
  if rng.random() < 0.4:
    sd = common.draw_sched(rng, grans=('sync', 'line'), expected_steps=400, victims=victims)
  return {'queues': queues, 'clients': [c0, c1], 'signals': sigs, 'sched': sd, 'stratum': 'restart'}


def generate(seed, stratum, tier):
  rng = random.Random(seed)
  if stratum == 'restart':
    return generate_restart(rng)
  nq = rng.randrange(1, 4)
  queues = [{'kind': 'deque', 'prefill': 0} for _ in range(nq)]
  sigs = ['SA', 'SB'][:rng.randrange(1, 3)]
  prios = rng.choice([[1000], [1, 1000], [1, 2, 3], [5, 5, 7], [None, 1000, 1], [700, 700, 5000], [1000, 5000, 5010]])
  c0 = [['start']]
  for qi in range(nq):
    for s in sigs:
      c0.append(['subscribe', qi, s, rng.choice(['fifo', 'lifo']), 'event'])
  nclients = rng.choice([1, 2, 2, 3])
  clients = [c0] + [[['sleep', 0.001]] for _ in range(nclients - 1)]
  if rng.random() < 0.25:
    # events published before the fabric is started wait in it too
    c0.remove(['start'])
    for _ in range(rng.randrange(2, 6)):
      c0.append(['publish', rng.choice(sigs), rng.choice(prios)])
    c0.append(['start'])
  for _ in range(common.span(rng, 3, 13, common.deep(rng), 4)):
    clients[rng.randrange(nclients)].append(['publish', rng.choice(sigs), rng.choice(prios)])
    if rng.random() < 0.08:
      clients[0].append(['start'])     # start() on a running fabric must change nothing
  victims = [rng.choice(['fabric.fifo', 'fabric.lifo'])] if rng.random() < 0.6 else ['fabric.fifo', 'fabric.lifo']
  sd = {'gran': rng.choice(['sync', 'line']), 'policy': 'starve', 's': rng.choice([0.5, 0.9]), 'victims': victims,
        'start': rng.randrange(0, 60), 'len': rng.choice([100, 400, 2000])}
  if rng.random() < 0.25:
    sd = common.draw_sched(rng, grans=('sync', 'line'), expected_steps=400, victims=victims)
  sc = {'queues': queues, 'clients': clients, 'signals': sigs, 'sched': sd, 'fresh_priorities': rng.random() < 0.5}
  if nclients > 1 and rng.random() < 0.6:
    # a slow publisher: a client is descheduled for a while at a drawn point, possibly in the middle of publish(),
    # while the others go on publishing (the "stalled node" fault aimed at the publishers)
    sc['stalls'] = common.draw_stalls(rng, 60 + 40 * sum(len(c) for c in clients), rate=1.0, n=(1, 5), durations=(200, 5000, 100000))
    sc['stall_roles'] = ['client']
  return sc


def shrink_candidates(sc):
  if sc.get('stalls'):
    yield {k: v for k, v in sc.items() if k not in ('stalls', 'stall_roles')}
    if len(sc['stalls']) > 1:
      for k in sorted(sc['stalls']):
        yield dict(sc, stalls={kk: v for kk, v in sc['stalls'].items() if kk != k})
  cl = sc['clients']
  for i, s in enumerate(cl):
    for j in range(len(s) - 1, -1, -1):
      if s[j][0] == 'publish':
        yield dict(sc, clients=cl[:i] + [s[:j] + s[j + 1:]] + cl[i + 1:])
  if len(sc['queues']) > 1:
    nq = len(sc['queues']) - 1
    yield dict(sc, queues=sc['queues'][:nq], clients=[[o for o in s if not (o[0] == 'subscribe' and o[1] >= nq)] for s in cl])


def arrival_order(run, sim, res):
  """the same rule seen from the subscribers: if Y had to go before X (smaller priority number, or equal
  priority and published earlier) and Y was already waiting in the fabric queue when the delivery thread
  last took something before it delivered X, then X must not arrive before Y"""
  f = run.fabric
  if f is None:
    return
  for role, pq in (('fabric.fifo', f.fifo_fabric_queue), ('fabric.lifo', f.lifo_fabric_queue)):
    label = pq._label
    put_seq, gets = {}, []
    for seq, tn, kind, lab, op, detail in sim.history:
      if kind == 'pqueue' and lab == label:
        if op == 'put' and detail and detail[2] is not None:
          put_seq.setdefault(detail[2], seq)
        elif op == 'get' and tn.split('#')[0] == role:
          gets.append(seq)
    per_queue = {}
    for seq, r, qi, op, uid, tn in run.deliveries():
      if r == role:
        per_queue.setdefault(qi, []).append((seq, uid))
    for qi, arr in sorted(per_queue.items()):
      for i in range(len(arr)):
        sx, x = arr[i]
        before = [g for g in gets if g < sx]
        if not before:
          continue
        g = before[-1]
        px = run.pubs.get(x)
        for j in range(i + 1, len(arr)):
          sy, y = arr[j]
          py = run.pubs.get(y)
          if px is None or py is None or y == x or put_seq.get(y, 10 ** 12) >= g:
            continue
          first = py['prio'] < px['prio'] or (py['prio'] == px['prio'] and py['end'] is not None and py['end'] < px['begin'])
          if first:
            res.violate('arrival-order', {'tie': py['prio'] == px['prio']},
                        'queue q%d received %s (priority %s) before %s (priority %s) from the %s thread although %s was already waiting in the fabric and had to go first; arrivals: %s' % (
                          qi, x, px['prio'], y, py['prio'], role, y, [u for _, u in arr]))
            return


def execute(sc, sched):
  res = RunResult()
  run, sim, reason = fw.run_fabric(sc, sched)
  try:
    if reason == 'budget':
      res.outcome, res.reason = 'inconclusive', 'step budget'
    elif run.errors:
      k, i, op, typ, tb = run.errors[0]
      res.violate('call-raised', {'op': op[0], 'exc': typ}, 'client %d op#%d %s raised %s\n%s' % (k, i, op, typ, tb))
    elif sim.thread_errors:
      common.thread_error_violations(sim, res)
    elif run.pq_violations:
      v = run.pq_violations[0]
      res.violate('priority-order' if v[0] == 'priority' else 'publish-order-among-equals', {},
                  'the %s thread took event %s (priority %s) while event %s (priority %s%s) was still queued (%d items in %s); publications: %s' % (
                    'fifo' if v[5].endswith('#1') else 'lifo', v[1], v[3], v[2], v[4], ', published earlier' if v[0] != 'priority' else '', v[6], v[5],
                    [(u, p['prio'], p['client']) for u, p in sorted(run.pubs.items(), key=lambda kv: kv[1]['begin'])]))
    if res.outcome == 'ok':
      arrival_order(run, sim, res)
    f = run.fabric
    for pq in ((f.fifo_fabric_queue, f.lifo_fabric_queue) if f is not None else ()):
      for (prio, st), snap in getattr(pq, 'get_log', []):
        if len(snap) >= 3 and len(set(p for p, _ in snap)) < len(snap):
          res.nontrivial.append(hash((tuple(sorted((p if p is not None else -1) for p, _ in snap)), len(snap))))
    if res.outcome == 'violation' or sched.get('seed', 0) % 499 == 0:
      res.sample = {'clients': sc['clients'], 'sched': sc['sched'],
                    'gets': [{'took': g[0], 'queued': g[1]} for g in (f.fifo_fabric_queue.get_log[:6] if f is not None else [])]}
  finally:
    common.finish(sim, res)
  return res
