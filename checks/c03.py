"""C03 - start_at enters the enclosing states outside-in and follows initial transitions."""
import random

from checks import chart_common as cc
from models import chart_oracles as co
from worlds import chartgen

PID = 'C03'
SCHEDULE_DEPENDENT = False
RULE = ('seeded state trees (general stratum: all shapes; deep stratum: chains to depth 16 with initial transitions '
        'that skip several levels), every state as start state, every host and build; in 30% of the runs on synchronous hosts the chart object is started again at another state after it has been running; oracle: the ENTRY/INIT '
        'invocations and entry/init actions recorded inside the handlers during start_at equal the reference start '
        'sequence (outside-in entries, then the init chain), nothing is exited, resting state = last init target. '
        'Non-trivial = start path of >= 2 entries or >= 1 initial transition; distinct = distinct (depth of start '
        'state, number of initial transitions followed, total entries) tuples.')
ASSUMPTIONS = ['no schedule, clock or fault dimension: claimed as seeded program search with an in-run reference-model oracle']
PROBES = []
PLAN = {
  'quick': {'strata': {'general': 6000, 'deep': 4000}, 'wall_s': 300, 'chunk': 200, 'min_conclusive': 1000},
  'thorough': {'strata': {'general': 200000, 'deep': 150000}, 'wall_s': 900, 'chunk': 500, 'min_conclusive': 1000},
}
ORACLES = [co.check_start]


def generate(seed, stratum, tier):
  rng = random.Random(seed)
  if stratum == 'deep':
    kw = {'shape': 'chain', 'nstates': rng.randrange(6, 19), 'max_depth': 16, 'deep': rng.random() < 0.6, 'p_init': 0.7, 'p_react': 0.2}
  else:
    kw = {'p_react': 0.2}
  sc = cc.gen_chart_scenario(rng, spec_kw=kw, nops=(0, 3))
  if sc['host'] in ('plain', 'instrumented', 'queued') and rng.random() < 0.3:
    # the same chart object is started again, at another state, after it has been running
    names = [st['name'] for st in sc['spec']['states']]
    for _ in range(rng.randrange(1, 3)):
      sc['ops'].insert(rng.randrange(len(sc['ops']) + 1), ['restart', rng.choice(names)])
  return sc


shrink_candidates = cc.shrink_chart


def collect(run, res):
  res.nontrivial[:] = []
  if run.steps and run.steps[0].pred:
    p = run.steps[0].pred
    ne = sum(1 for c in p['calls'] if c[0] == 'ENTRY')
    ni = sum(1 for a in p['actions'] if a[0] == 'init')
    if ne >= 2 or ni >= 1:
      res.nontrivial.append(hash((run.spec.depth(run.sc['start']), ni, ne)))


def execute(sc, sched):
  return cc.run_and_judge(sc, sched, ORACLES, collect=collect)
