"""C01 - transitions run exits, entries and initial transitions in UML order."""
import random

from checks import chart_common as cc
from models import chart_oracles as co

PID = 'C01'
SCHEDULE_DEPENDENT = False
RULE = ('seeded generation of state trees (2-18 states, depth <= 8 in the general strata and <= 16 in the very-deep stratum, chain-heavy/bushy/random shapes, initial '
        'transitions to any proper descendant incl. chains that skip levels), reaction tables, start state and '
        'event histories of 5-40 events; every host (plain, instrumented, queued, active object, factory) and '
        'build (hand-written closures with/without spy_on, template, factory, to_code) as swarm dimensions; the '
        'real processor runs inside the simulator and every step is compared with the UML reference model '
        '(ordered ENTRY/EXIT/INIT invocations and actions recorded inside the handler bodies, resting state); some actions send an '
        'event to a second, independent chart in the middle of the step (that chart makes a transition of its own, which is checked too). '
        'Non-trivial = a transition step; distinct = distinct (topology class a-h, number of exits, number of '
        'entries, depth of the initial-transition chain) tuples.')
ASSUMPTIONS = ['no schedule dimension: the dispatch order is fixed by the history (one step at a time)']
PROBES = []

PLAN = {
  'quick': {'strata': {'general': 4000, 'deep-init': 2500, 'very-deep': 2500}, 'wall_s': 300, 'chunk': 100, 'min_conclusive': 1000},
  'thorough': {'strata': {'general': 100000, 'deep-init': 70000, 'very-deep': 70000}, 'wall_s': 900, 'chunk': 250, 'min_conclusive': 1000},
}

def companion(run, res):
  if run.companion_problems:
    before, after, got, want = run.companion_problems[0]
    res.violate('other-chart-transition', {}, 'a second chart poked from an action of the chart under test went from %s to %s running %s, expected %s' % (before, after, got, want))


ORACLES = [lambda run, res: co.check_transitions(run, res, want=('C01',)), companion]


def generate(seed, stratum, tier):
  rng = random.Random(seed)
  if stratum == 'deep-init':
    kw = {'shape': 'chain', 'nstates': rng.randrange(5, 15), 'deep': True, 'p_react': 0.6, 'decline_bias': 0.05}
  elif stratum == 'very-deep':
    # nesting up to 16: room for two or three chained initial transitions of 4+ levels each
    kw = {'shape': 'chain', 'nstates': rng.randrange(10, 19), 'max_depth': 16, 'deep': rng.random() < 0.5,
          'p_init': 0.6, 'p_react': 0.5, 'decline_bias': 0.05, 'nsignals': rng.randrange(2, 5)}
  else:
    kw = {}
  # is_in/child_state queries between steps must not change what the next event does
  return cc.gen_chart_scenario(rng, spec_kw=kw, ops=('ev', 'is_in', 'child'), weights=(8, 1, 1))


shrink_candidates = cc.shrink_chart


def execute(sc, sched):
  return cc.run_and_judge(sc, sched, ORACLES)
