"""C15 - defer holds events back until recall, oldest first."""
import random

from checks import chart_common as cc
from models import chart_oracles as co

PID = 'C15'
SCHEDULE_DEPENDENT = False
RULE = ('seeded charts on a queued host driven by histories of defer/recall/post/next_rtc/complete_circuit from outside, '
        'plus handlers that defer the event being processed or call recall (bounded fire counts), including recall on an '
        'empty defer queue; oracle: a two-deque model - recall moves the oldest deferred event to the back of the queue '
        'and returns it, or returns None and changes nothing; a deferred event is never dispatched before its recall; '
        'queue and deferred-queue contents match the model after every op. Non-trivial = a recall with >= 1 deferred '
        'event, or a defer made by a handler; distinct = distinct (op, deferred count, queue length) tuples.')
ASSUMPTIONS = ['no schedule dimension']
PROBES = []
PLAN = {
  'quick': {'strata': {'defer-recall': 5000}, 'wall_s': 90, 'chunk': 100, 'min_conclusive': 1000},
  'thorough': {'strata': {'defer-recall': 120000}, 'wall_s': 900, 'chunk': 250, 'min_conclusive': 10000},
}
ORACLES = [lambda run, res: co.check_queue_order(run, res, want=('C15',))]


def generate(seed, stratum, tier):
  rng = random.Random(seed)
  kw = {'fx_rate': rng.choice([0.0, 0.25, 0.5]), 'fx_ops': ('defer', 'recall', 'post_fifo'), 'nstates': rng.randrange(2, 8)}
  return cc.gen_chart_scenario(rng, combos=[('queued', 'closure'), ('queued', 'closure-spied'), ('queued', 'template')],
                               spec_kw=kw, ops=('defer', 'recall', 'post_fifo', 'post_lifo', 'rtc', 'circuit'),
                               weights=(4, 4, 2, 1, 4, 1), nops=(5, 40))


shrink_candidates = cc.shrink_chart


def collect(run, res):
  res.nontrivial[:] = []
  nd, nq = 0, 0
  for ob in run.steps:
    if ob.op[0] == 'recall' and nd >= 1:
      res.nontrivial.append(hash(('recall', min(nd, 5), min(nq, 5))))
    if ob.pred and 'steps' in ob.pred:
      for s in ob.pred['steps']:
        for f, n in (s.get('fx', []) if s else []):
          if f['op'] in ('defer', 'recall'):
            res.nontrivial.append(hash(('fx-' + f['op'], min(nd, 5), min(nq, 5))))
    nd, nq = len(ob.model_d or []), len(ob.model_q or [])


def execute(sc, sched):
  return cc.run_and_judge(sc, sched, ORACLES, collect=collect)
