"""C15 - defer holds events back until recall, oldest first."""
import random

from checks import chart_common as cc
from models import chart_oracles as co

PID = 'C15'
SCHEDULE_DEPENDENT = False
RULE = ('seeded charts on a queued host driven by histories of defer/recall/post/next_rtc/complete_circuit from outside, '
        'plus handlers that defer the event being processed or call recall (bounded fire counts), including recall on an '
        'empty defer queue; oracle: a two-deque model - recall moves the oldest deferred event to the back of the queue '
        'and returns it, or returns None and changes nothing; a deferred event is never dispatched before its recall; '
        'queue and deferred-queue contents match the model after every op; a small-capacity stratum (2-4) fills the deferred queue and checks only that a deferred, not yet recalled event is never dispatched and that recall returns the oldest deferred event still held. Non-trivial = a recall with >= 1 deferred '
        'event, or a defer made by a handler; distinct = distinct (op, deferred count, queue length) tuples.')
ASSUMPTIONS = ['no schedule dimension']
PROBES = ['defer_on_full_deferred_queue']
PLAN = {
  'quick': {'strata': {'defer-recall': 8000, 'small-capacity': 5000}, 'wall_s': 300, 'chunk': 100, 'min_conclusive': 1000},
  'thorough': {'strata': {'defer-recall': 120000, 'small-capacity': 60000}, 'wall_s': 900, 'chunk': 250, 'min_conclusive': 1000},
}
ORACLES = [lambda run, res: co.check_queue_order(run, res, want=('C15',))]


def generate(seed, stratum, tier):
  rng = random.Random(seed)
  if stratum == 'small-capacity':
    kw = {'fx_rate': rng.choice([0.0, 0.3]), 'fx_ops': ('defer', 'post_fifo'), 'nstates': rng.randrange(1, 5)}
    sc = cc.gen_chart_scenario(rng, combos=[('queued', 'closure'), ('queued', 'closure-spied')], spec_kw=kw,
                               ops=('defer', 'recall', 'post_fifo', 'rtc', 'circuit'), weights=(6, 2, 2, 3, 1), nops=(6, 40))
    sc['queue_size'] = rng.choice([2, 3, 4])
    return sc
  kw = {'fx_rate': rng.choice([0.0, 0.25, 0.5]), 'fx_ops': ('defer', 'recall', 'post_fifo'), 'nstates': rng.randrange(2, 8)}
  return cc.gen_chart_scenario(rng, combos=[('queued', 'closure'), ('queued', 'closure-spied'), ('queued', 'template')],
                               spec_kw=kw, ops=('defer', 'recall', 'post_fifo', 'post_lifo', 'rtc', 'circuit'),
                               weights=(4, 4, 2, 1, 4, 1), nops=(5, 40))


shrink_candidates = cc.shrink_chart


def collect(run, res):
  res.nontrivial[:] = []
  nd, nq = 0, 0
  for ob in run.steps:
    if ob.op[0] == 'recall' and nd >= 1:
      res.nontrivial.append(hash(('recall', min(nd, 5), min(nq, 5))))
    if ob.pred and 'steps' in ob.pred:
      for s in ob.pred['steps']:
        for f, n in (s.get('fx', []) if s else []):
          if f['op'] in ('defer', 'recall'):
            res.nontrivial.append(hash(('fx-' + f['op'], min(nd, 5), min(nq, 5))))
    nd, nq = len(ob.model_d or []), len(ob.model_q or [])


def execute(sc, sched):
  if sc.get('queue_size'):
    # overflow of the (deferred) queue: which event is displaced is not constrained, so the exact
    # deque model is not used here - only the hold-back rule and recall's return value
    return cc.run_and_judge(sc, sched, [co.check_defer_holdback], collect=collect_small)
  return cc.run_and_judge(sc, sched, ORACLES, collect=collect)


def collect_small(run, res):
  res.nontrivial[:] = []
  cap = run.sc['queue_size']
  for ob in run.steps:
    if ob.op[0] == 'defer' and ob.deferred is not None and len(ob.deferred) >= cap:
      run.sim.probe('defer_on_full_deferred_queue')
      res.nontrivial.append(hash(('defer-full', cap, len(ob.queue or []))))
