"""C15 - defer holds events back until recall, oldest first."""
import random

from checks import chart_common as cc
from models import chart_oracles as co

PID = 'C15'
SCHEDULE_DEPENDENT = False
RULE = ('seeded charts on a queued host driven by histories of defer/recall/post/next_rtc/complete_circuit from outside, '
        'plus handlers that defer the event being processed or call recall (bounded fire counts), including recall on an '
        'empty defer queue; oracle: a two-deque model - recall moves the oldest deferred event to the back of the queue '
        'and returns it, or returns None and changes nothing; a deferred event is never dispatched before its recall; '
        'queue and deferred-queue contents match the model after every op; a small-capacity stratum (2-4) fills the deferred queue and checks only that a deferred, not yet recalled event is never dispatched and that recall returns the oldest deferred event still held. A third stratum hosts the chart on an active object whose handlers defer posted events and the ticks of timed sources and recall on another signal while sources are cancelled or finish (recall must still hand back the oldest deferred event). Non-trivial = a recall with >= 1 deferred '
        'event, or a defer made by a handler; distinct = distinct (op, deferred count, queue length) tuples.')
ASSUMPTIONS = ['no schedule dimension']
PROBES = ['defer_on_full_deferred_queue', 'recall_in_active_object']
PLAN = {
  'quick': {'strata': {'defer-recall': 8000, 'small-capacity': 5000, 'active-object': 1200}, 'wall_s': 300, 'chunk': 100, 'min_conclusive': 1000},
  'thorough': {'strata': {'defer-recall': 120000, 'small-capacity': 60000, 'active-object': 30000}, 'wall_s': 900, 'chunk': 250, 'min_conclusive': 1000},
}
ORACLES = [lambda run, res: co.check_queue_order(run, res, want=('C15',))]


def generate_ao(rng):
  # an active object whose handlers set aside what they are given (posted events and the ticks of timed sources) and
  # recall on another signal, while sources are cancelled, finish, or the object is stopped: none of that touches what
  # is deferred - recall still hands back the oldest one
  from worlds import ao as aw, common
  objs = aw.default_objects(1, spied=rng.random() < 0.7)
  p = rng.choice([0.05, 0.1])
  react = {'SA': [{'op': 'defer', 'id': 50, 'max': rng.choice([2, 4, 100])}], 'SB': [{'op': 'recall', 'id': 51, 'max': 100}],
           'TA': [{'op': 'defer', 'id': 52, 'max': rng.choice([1, 3, 100])}]}
  if rng.random() < 0.5:
    react['TB'] = [{'op': 'defer', 'id': 53, 'max': 3}]
  objs[0]['react'] = react
  c0 = [['start', 0]]
  slot = 0
  for _ in range(rng.randrange(3, 12)):
    k = rng.choices(['SA', 'timed', 'SB', 'sleep', 'cancel', 'cancel_id'], weights=[4, 2, 3, 3, 2, 1])[0]
    if k == 'SA':
      c0.append([rng.choice(['post_fifo', 'post_fifo', 'post_lifo']), 0, 'SA'])
    elif k == 'SB':
      c0.append(['post_fifo', 0, 'SB'])
    elif k == 'timed':
      c0.append(['timed', 0, rng.choice(['fifo', 'lifo']), rng.choice(['TA', 'TA', 'TB']), p, rng.choice([0, 2, 3]), rng.choice([True, False]), slot])
      slot += 1
    elif k == 'sleep':
      c0.append(['sleep', p * rng.choice([0.5, 1, 2.5])])
    elif k == 'cancel':
      c0.append(['cancel_events', 0, rng.choice(['TA', 'TB']), rng.choice(['same', 'fresh'])])
    elif slot:
      c0.append(['cancel_event', 0, 0, rng.randrange(slot), 'same'])
  c0 += [['sleep', p], ['cancel_events', 0, 'TA', 'fresh'], ['cancel_events', 0, 'TB', 'fresh'], ['sleep', p]]
  c0 += [['post_fifo', 0, 'SB'] for _ in range(rng.randrange(2, 6))]
  if rng.random() < 0.3:
    c0.insert(len(c0) - 2, ['stop', 0])
  total = sum(o[1] for o in c0 if o[0] == 'sleep')
  return {'world': 'ao', 'objects': objs, 'queue_size': 500, 'clients': [c0], 'horizon_s': total + 1.0,
          'sched': common.draw_sched(rng, grans=('sync', 'line'), expected_steps=2500, victims=['consumer'], policies=('sticky', 'pct', 'starve'))}


def execute_ao(sc, sched):
  from worlds import ao as aw, common
  from checks import ao_common as ac
  from sim.runner import RunResult
  res = RunResult()
  run, sim, reason = aw.run_ao(sc, sched, max_steps=400000, horizon_s=sc.get('horizon_s'))
  try:
    if ac.base_judge(run, sim, reason, res):
      held = []
      for i, (what, oi, uid, seq) in enumerate(run.deferlog):
        if what == 'defer':
          held.append(uid)
        else:
          want = held.pop(0) if held else None
          if uid != want:
            res.violate('recall-return', {'want_none': want is None, 'host': 'active-object'},
                        'recall #%d made by a handler of the active object returned %r, the oldest deferred event was %r (deferred and not yet recalled, oldest first: %s)\nlog: %s' % (
                          i, uid, want, [want] + held if want is not None else held, [(w, u) for w, _, u, _ in run.deferlog[:i + 1]]))
            break
          if uid is not None and held.count(uid) == 0 and res.outcome == 'ok':
            pass
      if res.outcome == 'ok':
        # "each recall moves the oldest deferred event to the back of the queue": the handler's thread puts it there
        cons = [(seq, uid_) for seq, tn, op, uid_, _t in run.queue_ops(0) if op in ('append', 'appendleft') and tn.split('#')[0] == 'consumer']
        prev_seq = 0
        for i, (what, oi, uid, seq) in enumerate(run.deferlog):
          if what == 'recall' and uid is not None:
            if not any(prev_seq < s_ <= seq and u_ == uid for s_, u_ in cons):
              res.violate('recall-did-not-post', {'host': 'active-object'},
                          'recall #%d returned %r but the event was not put back into the queue of the object; log: %s' % (
                            i, uid, [(w, u) for w, _, u, _ in run.deferlog[:i + 1]]))
              break
          prev_seq = seq
      nrec = sum(1 for r in run.deferlog if r[0] == 'recall' and r[2] is not None)
      if nrec:
        sim.probe('recall_in_active_object')
        res.nontrivial.append(hash(('ao', min(nrec, 6), len(run.sources), len(run.cancels), sim.switch_signature())))
    if res.outcome == 'violation' or sched.get('seed', 0) % 499 == 0:
      res.sample = {'world': 'active object', 'client': sc['clients'][0], 'defer_log': [(w, u) for w, _, u, _ in run.deferlog[:20]]}
  finally:
    common.finish(sim, res)
  return res


def generate(seed, stratum, tier):
  rng = random.Random(seed)
  if stratum == 'active-object':
    return generate_ao(rng)
  if stratum == 'small-capacity':
    kw = {'fx_rate': rng.choice([0.0, 0.3]), 'fx_ops': ('defer', 'post_fifo'), 'nstates': rng.randrange(1, 5)}
    sc = cc.gen_chart_scenario(rng, combos=[('queued', 'closure'), ('queued', 'closure-spied')], spec_kw=kw,
                               ops=('defer', 'recall', 'post_fifo', 'rtc', 'circuit'), weights=(6, 2, 2, 3, 1), nops=(6, 40))
    sc['queue_size'] = rng.choice([2, 3, 4])
    return sc
  kw = {'fx_rate': rng.choice([0.0, 0.25, 0.5]), 'fx_ops': ('defer', 'recall', 'post_fifo'), 'nstates': rng.randrange(2, 8)}
  sc = cc.gen_chart_scenario(rng, combos=[('queued', 'closure'), ('queued', 'closure-spied'), ('queued', 'template')],
                             spec_kw=kw, ops=('defer', 'recall', 'post_fifo', 'post_lifo', 'rtc', 'circuit'),
                             weights=(4, 4, 2, 1, 4, 1), nops=(5, 40))
  if rng.random() < 0.25:
    # the chart is started again somewhere in the history: what is deferred stays deferred
    names = [s['name'] for s in sc['spec']['states']]
    sc['ops'].insert(rng.randrange(1, len(sc['ops']) + 1), ['restart', rng.choice(names)])
  return sc


def shrink_candidates(sc):
  if sc.get('world') == 'ao':
    s_ = sc['clients'][0]
    for j in range(len(s_) - 1, -1, -1):
      if s_[j][0] != 'start':
        yield dict(sc, clients=[s_[:j] + s_[j + 1:]])
    return
  for c in cc.shrink_chart(sc):
    yield c


def collect(run, res):
  res.nontrivial[:] = []
  nd, nq = 0, 0
  for ob in run.steps:
    if ob.op[0] == 'recall' and nd >= 1:
      res.nontrivial.append(hash(('recall', min(nd, 5), min(nq, 5))))
    if ob.pred and 'steps' in ob.pred:
      for s in ob.pred['steps']:
        for f, n in (s.get('fx', []) if s else []):
          if f['op'] in ('defer', 'recall'):
            res.nontrivial.append(hash(('fx-' + f['op'], min(nd, 5), min(nq, 5))))
    nd, nq = len(ob.model_d or []), len(ob.model_q or [])


def execute(sc, sched):
  if sc.get('world') == 'ao':
    return execute_ao(sc, sched)
  if sc.get('queue_size'):
    # overflow of the (deferred) queue: which event is displaced is not constrained, so the exact
    # deque model is not used here - only the hold-back rule and recall's return value
    return cc.run_and_judge(sc, sched, [co.check_defer_holdback], collect=collect_small)
  return cc.run_and_judge(sc, sched, ORACLES, collect=collect)


def collect_small(run, res):
  res.nontrivial[:] = []
  cap = run.sc['queue_size']
  for ob in run.steps:
    if ob.op[0] == 'defer' and ob.deferred is not None and len(ob.deferred) >= cap:
      run.sim.probe('defer_on_full_deferred_queue')
      res.nontrivial.append(hash(('defer-full', cap, len(ob.queue or []))))
