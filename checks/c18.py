"""C18 - instrumentation never changes chart behaviour."""
import random

from checks import chart_common as cc
from models import chart_oracles as co

PID = 'C18'
SCHEDULE_DEPENDENT = False
RULE = ('one seeded chart spec and event history is executed under a drawn subset (always including the un-spied '
        'plain baseline) of the product {spied, un-spied} x {plain, instrumented, queued, active object} x '
        '{instrumented flag} x {live spy} x {live trace}; oracle: the handler-side action log (actions, entries, exits, '
        'inits in order) and the sequence of resting states are identical in every configuration and equal to the '
        'reference model; a configuration that raises where another does not is a violation. Non-trivial = a compared '
        'configuration pair whose history contains a transition; distinct = distinct (configuration, topology class, '
        'init depth) tuples.  Third stratum: queued charts driven with a backlog (posts, next_rtc, complete_circuit) under the 16 flag combinations of the queued host.')
ASSUMPTIONS = ['no schedule dimension; in the active-object hosts the client waits for the object to be idle between events']
PROBES = ['live_output_with_concurrent_posters']
PLAN = {
  'quick': {'strata': {'configs': 1500, 'threaded': 500, 'queued-backlog': 700}, 'wall_s': 300, 'chunk': 25, 'min_conclusive': 300},
  'thorough': {'strata': {'configs': 40000, 'threaded': 15000, 'queued-backlog': 20000}, 'wall_s': 900, 'chunk': 100, 'min_conclusive': 300},
}
# queued charts driven with a backlog (post, post, ..., next_rtc / complete_circuit): the flags of the queued host
QUEUED_CONFIGS = [{'host': 'queued', 'build': 'closure-spied' if sp else 'closure', 'instrumented': fl, 'live_spy': ls, 'live_trace': lt}
                  for sp in (False, True) for fl in (False, True) for ls in (False, True) for lt in (False, True)]
THREADED_CONFIGS = [{'spied': sp, 'instrumented': fl, 'live_spy': ls, 'live_trace': lt}
                    for sp in (False, True) for fl in (True, False) for ls in (False, True) for lt in (False, True)]


def all_configs():
  out = []
  for spied in (False, True):
    b = 'closure-spied' if spied else 'closure'
    out.append({'host': 'plain', 'build': b})
    out.append({'host': 'instrumented', 'build': b})
    for host in ('queued', 'ao'):
      for flag in (True, False):
        for ls in (False, True):
          for lt in (False, True):
            out.append({'host': host, 'build': b, 'instrumented': flag, 'live_spy': ls, 'live_trace': lt})
  # the decorator on some of the states only (which ones is drawn per scenario)
  out.append({'host': 'plain', 'build': 'closure-mixed'})
  out.append({'host': 'instrumented', 'build': 'closure-mixed'})
  for host in ('queued', 'ao'):
    for flag in (True, False):
      out.append({'host': host, 'build': 'closure-mixed', 'instrumented': flag, 'live_spy': False, 'live_trace': False})
  return out


CONFIGS = all_configs()


def generate_threaded(rng):
  # an active object that other threads (clients, a timed source) post to while it works: what it does with the
  # posted events must not depend on the decorator, the instrumented flag or live output
  from worlds import ao as aw, common
  objs = aw.default_objects(1)
  objs[0]['two_states'] = False
  if rng.random() < 0.5:
    objs[0]['react'] = {'SA': [{'op': rng.choice(['post_fifo', 'post_lifo']), 'sig': 'SC', 'id': 1, 'max': 3}]}
  nclients = rng.randrange(2, 4)
  clients = [[['start', 0]]] + [[['sleep', 0.001]] for _ in range(nclients - 1)]
  for _ in range(rng.randrange(4, 14)):
    clients[rng.randrange(nclients)].append([rng.choice(['post_fifo', 'post_fifo', 'post_lifo']), 0, rng.choice(['SA', 'SB'])])
  if rng.random() < 0.5:
    clients[0].append(['timed', 0, rng.choice(['fifo', 'lifo']), 'T0', 0.1, rng.choice([1, 3]), rng.choice([True, False]), 0])
  picks = rng.sample(range(1, len(THREADED_CONFIGS)), 3)
  return {'world': 'ao', 'objects': objs, 'queue_size': 500, 'clients': clients, 'configs': [0] + sorted(picks),
          'sched': common.draw_sched(rng, grans=('sync', 'line'), expected_steps=2000, victims=[rng.choice(['writer', 'consumer'])])}


def generate(seed, stratum, tier):
  rng = random.Random(seed)
  if stratum == 'threaded':
    return generate_threaded(rng)
  if stratum == 'queued-backlog':
    kw = {'fx_rate': rng.choice([0.0, 0.2]), 'fx_ops': ('post_fifo', 'post_lifo'), 'nstates': rng.randrange(2, 9)}
    sc = cc.gen_chart_scenario(rng, combos=[('queued', 'closure')], nops=(5, 30), spec_kw=kw, flags=False,
                               ops=('post_fifo', 'post_lifo', 'rtc', 'circuit', 'ev', 'defer', 'recall'), weights=(5, 2, 3, 2, 1, 1.5, 1.5))
    sc['configs'] = [0] + sorted(rng.sample(range(1, len(QUEUED_CONFIGS)), 5 if tier == 'quick' else 9))
    sc['config_set'] = 'queued'
    if rng.random() < 0.3:
      # small instrumentation ring buffers (class attributes a user may set): what the logs keep changes, what the chart does must not
      sc['rings'] = {'rtc': rng.choice([3, 4, 6, 10]), 'spy': rng.choice([5, 20, 500]), 'trc': rng.choice([2, 5, 500])}
    return sc
  sc = cc.gen_chart_scenario(rng, combos=[('plain', 'closure')], nops=(4, 25), ops=('ev', 'is_in', 'child'), weights=(8, 1, 1))
  k = 6 if tier == 'quick' else 10
  picks = rng.sample(range(1, len(CONFIGS)), k)
  sc['configs'] = [0] + sorted(picks)
  sc['mix'] = rng.randrange(1 << 30)
  if rng.random() < 0.4:
    sc['uid_kind'] = 'int'      # the events carry a number as payload, not a string
  return sc


def shrink_candidates(sc):
  if sc.get('world') == 'ao':
    cfgs = sc['configs']
    if len(cfgs) > 2:
      for i in range(1, len(cfgs)):
        yield dict(sc, configs=cfgs[:i] + cfgs[i + 1:])
    cl = sc['clients']
    for i, s_ in enumerate(cl):
      for j in range(len(s_) - 1, -1, -1):
        if s_[j][0] != 'start':
          yield dict(sc, clients=cl[:i] + [s_[:j] + s_[j + 1:]] + cl[i + 1:])
    return
  cfgs = sc['configs']
  if len(cfgs) > 2:
    for i in range(1, len(cfgs)):
      yield dict(sc, configs=cfgs[:i] + cfgs[i + 1:])
  for c in cc.shrink_chart(sc):
    if c['host'] == sc['host']:
      yield c


def cfg_name(c):
  return '%s/%s%s%s%s' % (c['host'], c['build'], '' if c.get('instrumented', True) else '/flag-off',
                          '/live-spy' if c.get('live_spy') else '', '/live-trace' if c.get('live_trace') else '')


def behaviour(run):
  # what an operation handed back counts as behaviour where the caller can act on it (recall)
  return [(tuple(ob.op), tuple(co.obs_actions(ob.recs)), ob.state, ob.exc, ob.ret if ob.op[0] == 'recall' else None) for ob in run.steps]


def execute_threaded(sc, sched):
  from worlds import ao as aw, common
  from checks import ao_common as ac
  from sim import kernel
  from sim.runner import RunResult
  total = RunResult()
  for idx, ci in enumerate(sc['configs']):
    cfg = THREADED_CONFIGS[ci]
    sc2 = dict(sc, objects=[dict(sc['objects'][0], **cfg)])
    r = RunResult()
    # a recorded decision list belongs to the configuration that misbehaved, which is the last one a (minimised)
    # scenario lists; the configurations before it run under the seed, exactly as they did when the run was found
    sch = sched
    if sched.get('mode') == 'replay' and idx != len(sc['configs']) - 1:
      sch = {'mode': 'seeded', 'seed': sched.get('seed', 0)}
    run, sim, reason = aw.run_ao(sc2, sch, max_steps=300000)
    try:
      problem = None
      if ac.base_judge(run, sim, reason, r):
        ctl = run.consumer_ctl(0)
        posted = sorted(u for u, p in run.posts.items() if p['end'] is not None)
        got = sorted(d[3] for d in run.dispatch if d[3] in run.posts)
        ntimed = sum(1 for d in run.dispatch if d[2] == 'T0')
        want_timed = sum(s['times'] for s in run.sources if not s['rejected'])
        if ctl is None or ctl.state == kernel.DONE:
          problem = ('thread-ended', 'the object\'s thread has ended')
        elif got != posted:
          problem = ('dispatch-set', 'posted %s, dispatched %s' % (posted, got))
        elif ntimed != want_timed:
          problem = ('timed-count', 'the timed source was dispatched %d times, expected %d' % (ntimed, want_timed))
      elif r.outcome == 'violation':
        problem = (r.violations[0].rule, r.violations[0].detail)
      elif r.outcome == 'inconclusive':
        total.outcome, total.reason = 'inconclusive', r.reason
        return total
      if problem is not None:
        if ci == 0:
          total.outcome, total.reason = 'inconclusive', 'baseline (un-spied, no live output) misbehaves: ' + problem[0]
          return total
        total.violate('config-misbehaves', {'host': 'ao-threaded', 'spied': cfg['spied'], 'rule': problem[0],
                                            'live': bool(cfg['live_spy'] or cfg['live_trace'])},
                      'active object with other threads posting to it, configuration %s: %s\n(the un-spied configuration without live output handled the same scenario correctly)' % (cfg, problem[1]))
        return total
      if cfg['live_spy'] or cfg['live_trace']:
        sim.probe('live_output_with_concurrent_posters')
      total.nontrivial.append(hash(('threaded', ci, len(run.dispatch) // 3, sim.switch_signature())))
      if sched.get('seed', 0) % 499 == 0 and total.sample is None:
        total.sample = {'world': 'threaded active object', 'clients': sc['clients'], 'configs': [THREADED_CONFIGS[c] for c in sc['configs']]}
    finally:
      common.finish(sim, r)
      total.steps += r.steps
      total.switches += r.switches
      total.sim_us += r.sim_us
      total.digest = hash((total.digest, r.digest))
      for k, v in r.probes.items():
        total.probes[k] = total.probes.get(k, 0) + v
      for k, v in r.faults.items():
        total.faults[k] = total.faults.get(k, 0) + v
      total.interleavings.extend(r.interleavings)
      total.decisions = r.decisions
  return total


def execute(sc, sched):
  if sc.get('world') == 'ao':
    return execute_threaded(sc, sched)
  base_res = None
  base_beh = None
  total = None
  table = QUEUED_CONFIGS if sc.get('config_set') == 'queued' else CONFIGS
  for ci in sc['configs']:
    cfg = table[ci]
    sc2 = dict(sc)
    sc2.update(cfg)
    r = cc.run_and_judge(sc2, sched, [lambda run, res: co.check_transitions(run, res, want=('C01', 'C02')), co.check_start],
                         keep_run=True)
    run = r.run
    r.run = None
    if total is None:
      total = r
    else:
      total.steps += r.steps
      total.switches += r.switches
      total.digest = hash((total.digest, r.digest))
      total.nontrivial.extend(hash((ci, s)) for s in r.nontrivial)
    if r.outcome == 'inconclusive':
      total.outcome, total.reason = 'inconclusive', r.reason
      return total
    spied = cfg['build'] == 'closure-spied'
    if r.outcome == 'violation':
      v = r.violations[0]
      if ci == 0:
        # the un-instrumented baseline itself misbehaves: C01-C03's subject
        total.outcome, total.reason = 'inconclusive', 'baseline violates ' + v.rule
        total.violations = []
        return total
      total.violations = []
      total.violate('config-misbehaves', {'host': cfg['host'], 'spied': spied, 'rule': v.rule},
                    'configuration %s: %s\n%s' % (cfg_name(cfg), v.rule, v.detail))
      return total
    beh = behaviour(run)
    if ci == 0:
      base_beh = beh
      continue
    if beh != base_beh:
      k = 0
      while k < min(len(beh), len(base_beh)) and beh[k] == base_beh[k]:
        k += 1
      total.violate('config-differs', {'host': cfg['host'], 'spied': spied},
                    'configuration %s behaves differently from the un-instrumented baseline (first configuration) at step %d:\n baseline %s\n this     %s' % (
                      cfg_name(cfg), k, base_beh[k] if k < len(base_beh) else None, beh[k] if k < len(beh) else None))
      return total
  return total
