"""C18 - instrumentation never changes chart behaviour."""
import random

from checks import chart_common as cc
from models import chart_oracles as co

PID = 'C18'
SCHEDULE_DEPENDENT = False
RULE = ('one seeded chart spec and event history is executed under a drawn subset (always including the un-spied '
        'plain baseline) of the product {spied, un-spied} x {plain, instrumented, queued, active object} x '
        '{instrumented flag} x {live spy} x {live trace}; oracle: the handler-side action log (actions, entries, exits, '
        'inits in order) and the sequence of resting states are identical in every configuration and equal to the '
        'reference model; a configuration that raises where another does not is a violation. Non-trivial = a compared '
        'configuration pair whose history contains a transition; distinct = distinct (configuration, topology class, '
        'init depth) tuples.')
ASSUMPTIONS = ['no schedule dimension; in the active-object hosts the client waits for the object to be idle between events']
PROBES = []
PLAN = {
  'quick': {'strata': {'configs': 1500}, 'wall_s': 300, 'chunk': 25, 'min_conclusive': 300},
  'thorough': {'strata': {'configs': 40000}, 'wall_s': 900, 'chunk': 100, 'min_conclusive': 3000},
}


def all_configs():
  out = []
  for spied in (False, True):
    b = 'closure-spied' if spied else 'closure'
    out.append({'host': 'plain', 'build': b})
    out.append({'host': 'instrumented', 'build': b})
    for host in ('queued', 'ao'):
      for flag in (True, False):
        for ls in (False, True):
          for lt in (False, True):
            out.append({'host': host, 'build': b, 'instrumented': flag, 'live_spy': ls, 'live_trace': lt})
  return out


CONFIGS = all_configs()


def generate(seed, stratum, tier):
  rng = random.Random(seed)
  sc = cc.gen_chart_scenario(rng, combos=[('plain', 'closure')], nops=(4, 25), ops=('ev', 'is_in', 'child'), weights=(8, 1, 1))
  k = 6 if tier == 'quick' else 10
  picks = rng.sample(range(1, len(CONFIGS)), k)
  sc['configs'] = [0] + sorted(picks)
  return sc


def shrink_candidates(sc):
  cfgs = sc['configs']
  if len(cfgs) > 2:
    for i in range(1, len(cfgs)):
      yield dict(sc, configs=cfgs[:i] + cfgs[i + 1:])
  for c in cc.shrink_chart(sc):
    if c['host'] == sc['host']:
      yield c


def cfg_name(c):
  return '%s/%s%s%s%s' % (c['host'], c['build'], '' if c.get('instrumented', True) else '/flag-off',
                          '/live-spy' if c.get('live_spy') else '', '/live-trace' if c.get('live_trace') else '')


def behaviour(run):
  return [(tuple(ob.op), tuple(co.obs_actions(ob.recs)), ob.state, ob.exc) for ob in run.steps]


def execute(sc, sched):
  base_res = None
  base_beh = None
  total = None
  for ci in sc['configs']:
    cfg = CONFIGS[ci]
    sc2 = dict(sc)
    sc2.update(cfg)
    r = cc.run_and_judge(sc2, sched, [lambda run, res: co.check_transitions(run, res, want=('C01', 'C02')), co.check_start],
                         keep_run=True)
    run = r.run
    r.run = None
    if total is None:
      total = r
    else:
      total.steps += r.steps
      total.switches += r.switches
      total.digest = hash((total.digest, r.digest))
      total.nontrivial.extend(hash((ci, s)) for s in r.nontrivial)
    if r.outcome == 'inconclusive':
      total.outcome, total.reason = 'inconclusive', r.reason
      return total
    spied = cfg['build'] == 'closure-spied'
    if r.outcome == 'violation':
      v = r.violations[0]
      if ci == 0:
        # the un-instrumented baseline itself misbehaves: C01-C03's subject
        total.outcome, total.reason = 'inconclusive', 'baseline violates ' + v.rule
        total.violations = []
        return total
      total.violations = []
      total.violate('config-misbehaves', {'host': cfg['host'], 'spied': spied, 'rule': v.rule},
                    'configuration %s: %s\n%s' % (cfg_name(cfg), v.rule, v.detail))
      return total
    beh = behaviour(run)
    if ci == 0:
      base_beh = beh
      continue
    if beh != base_beh:
      k = 0
      while k < min(len(beh), len(base_beh)) and beh[k] == base_beh[k]:
        k += 1
      total.violate('config-differs', {'host': cfg['host'], 'spied': spied},
                    'configuration %s behaves differently from plain/closure at step %d:\n baseline %s\n this     %s' % (
                      cfg_name(cfg), k, base_beh[k] if k < len(base_beh) else None, beh[k] if k < len(beh) else None))
      return total
  return total
