"""C23 - state_name and state_fn always describe the current state."""
import random

from checks import chart_common as cc
from models import chart_oracles as co

PID = 'C23'
SCHEDULE_DEPENDENT = False
RULE = ('seeded charts, every host (plain, instrumented, queued, active object, factory) and build, histories of '
        '5-40 events; after start_at and after every step (read before any query): state_name == name of the '
        'current state, state_fn is that state\'s handler or the function it decorates, current_state() '
        '(instrumented queued hosts with spied states) returns the same name; "current" is the reference model\'s '
        'state cross-checked against chart.state.fun. Non-trivial = a read after a transition step; distinct = '
        'distinct (host, build, topology class, init depth) tuples.')
ASSUMPTIONS = ['no schedule dimension', 'reads are made right after start_at/each step, before any is_in/child_state query (the statement scopes the guarantee there)']
PROBES = []
PLAN = {
  'quick': {'strata': {'reports': 6000}, 'wall_s': 300, 'chunk': 100, 'min_conclusive': 1000},
  'thorough': {'strata': {'reports': 150000}, 'wall_s': 900, 'chunk': 250, 'min_conclusive': 1000},
}
ORACLES = [co.check_state_reports]


def generate(seed, stratum, tier):
  rng = random.Random(seed)
  sc = cc.gen_chart_scenario(rng)
  if rng.random() < 0.25:
    # start_at called again later on, in another state: "after start_at" holds for that start as well
    names = [st['name'] for st in sc['spec']['states']]
    sc['ops'].insert(rng.randrange(1, len(sc['ops']) + 1), ['restart', rng.choice(names)])
  return sc


shrink_candidates = cc.shrink_chart


def collect(run, res):
  sigs = list(res.nontrivial)
  res.nontrivial[:] = [hash((run.host, run.build.kind, s)) for s in sigs]


def execute(sc, sched):
  return cc.run_and_judge(sc, sched, ORACLES, collect=collect)
