"""C28 - every statement using a thread-safe attribute releases its lock."""
import random

from sim import kernel, seams, prims
from sim.runner import RunResult
from worlds import common
from checks import tsa_common as tc

PID = 'C28'
SCHEDULE_DEPENDENT = True
RULE = ('statements are generated as source lines from a grammar - reads in expressions (x = o.a, f(o.a), x = o.a + 1, '
        'x = (o.a, o.b)), comparisons (==, !=, <, <=, >, >=, also as if/while conditions), assignments (o.a = k, o.a = o.a + k, '
        'o.a = o.b), augmented assignments to the attribute itself (all eleven operators), augmented assignments to other '
        'targets that read the attribute (x += o.a, o.b += o.a, p.a += o.a, and r.a += o.a / z.a += o.a where r and z are other objects with a same-named attribute), the documented lock form (_, _lock = o.a followed '
        'by a with-block), two-statement lines, and a helper function whose one line (dst.a OP= src.a) is executed with different objects (the class, another class with a same-named attribute, a plain object, in both roles), and statements inside a function that name module-level objects - and executed by one simulated thread, 1-4 statements per run; after every '
        'statement the kernel\'s own bookkeeping says whether the thread still owns the simulated RLock of any attribute, and '
        'afterwards a second thread reads every attribute of both instances (the observable the property names) and must '
        'complete; a second stratum runs two such threads at the same time under the seeded scheduler (bytecode granularity inside __get__/__set__) and asks the same question of each. Non-trivial = any run (every statement exercises the classifier); distinct = distinct statement texts '
        '(productions x operands).')
ASSUMPTIONS = ['the grammar is finite; the quick tier covers every production many times (effectively exhaustive over productions x a few operand values)']
PROBES = []
PLAN = {
  'quick': {'strata': {'grammar': 6000, 'two-threads': 8000}, 'wall_s': 300, 'chunk': 100, 'min_conclusive': 1000},
  'thorough': {'strata': {'grammar': 60000, 'two-threads': 100000}, 'wall_s': 600, 'chunk': 250, 'min_conclusive': 1000},
}
AUG = ['+=', '-=', '*=', '//=', '**=', '<<=', '>>=', '|=', '&=', '^=', '%=']
CMP = ['==', '!=', '<', '<=', '>', '>=']


def productions(rng):
  k = rng.choice([1, 2, 3, 5])
  prods = [
    ('read', 'x = o.a'), ('read', 'f(o.a)'), ('read', 'x = o.a + %d' % k), ('read', 'x = (o.a, o.b)'),
    ('read', 'x = [o.a][0]'), ('read', 'x = -o.a'), ('read', 'x = o.a if o.b == 0 else %d' % k),
  ]
  for c in CMP:
    prods.append(('compare', 'x = o.a %s %d' % (c, k)))
    prods.append(('compare', 'if o.a %s %d: pass' % (c, k)))
  prods.append(('compare', 'while o.a < 0: break'))
  prods.append(('compare', 'while o.a >= %d: break' % (k + 1000)))
  prods += [('assign', 'o.a = %d' % k), ('assign', 'o.a = o.a + %d' % k), ('assign', 'o.a = o.b'), ('assign', 'o.a = o.b = %d' % k)]
  for op in AUG:
    kk = 2 if op in ('**=', '<<=', '>>=') else k
    prods.append(('aug-self', 'o.a %s %d' % (op, kk)))
  for op in ('+=', '-=', '*=', '|='):
    prods.append(('aug-other', 'y %s o.a' % op))
    prods.append(('aug-other', 'o.b %s o.a' % op))
    prods.append(('aug-other', 'p.a %s o.a' % op))
    prods.append(('aug-other', 'd["k"] %s o.a' % op))
  # the attribute is read on the right hand side of an augmented assignment to a same-named attribute of
  # another object: r is an instance of another class with thread-safe attributes, z a plain object
  for op in ('+=', '-=', '|='):
    prods.append(('aug-same-name-other-object', 'r.a %s o.a' % op))
    prods.append(('aug-same-name-other-object', 'z.a %s o.a' % op))
  # the attribute holds a container and one of its items is updated in place (the attribute itself is only read);
  # the last line puts a number back so that later statements find one
  prods += [('item-aug', 'o.a = [1, 2]\no.a[0] += %d\no.a = 0' % k), ('item-aug', 'o.a = {"k": 1}\no.a["k"] -= %d\no.a = 0' % k),
            ('item-aug', 'o.a = [1, 2]\nx = o.a[1]\no.a[1] = %d\no.a = 0' % k)]
  prods += [('mixed', 'x = o.a; o.a = x + %d' % k), ('mixed', 'o.a += o.b'), ('mixed', 'o.a += o.a'),
            ('lock-form', '_, _lock = o.a'), ('lock-form-block', '_, _lock = o.a\nwith _lock:\n  o.a = %d' % k)]
  return prods


def generate(seed, stratum, tier):
  rng = random.Random(seed)
  prods = productions(rng)
  if stratum == 'two-threads':
    # the same question while a second thread uses the attributes too: after each of its own
    # statements a thread must hold no lock, whatever the other thread is doing
    # statements that touch one attribute only: a statement that updates one attribute while it reads
    # another (o.b += o.a against o.a += o.b) can deadlock by lock order; no listed property speaks
    # about that and it is not what is asked here
    safe = [p for p in prods if p[0] not in ('lock-form', 'lock-form-block', 'aug-same-name-other-object', 'item-aug') and 'while' not in p[1] and '.b' not in p[1]]
    scripts = [[list(rng.choice(safe)) for _ in range(rng.randrange(1, 3))] for _ in range(2)]
    if rng.random() < 0.5:
      # the second thread works on another instance of the same class (same descriptor, other object)
      scripts[1] = [[k, t.replace('o.a', 'q.a').replace('p.a', 'o.a').replace('q.a', 'p.a')] for k, t in scripts[1]]
    return {'statements': scripts[0], 'second': scripts[1],
            'sched': common.draw_sched(rng, grans=('line', 'opcode'), weights=(1, 3), expected_steps=200, policies=('sticky', 'pct'))}
  n = rng.randrange(1, 5)
  sts = [list(rng.choice(prods)) for _ in range(n)]
  # an item-wise update comes as a little block (store a container, update an item, put a number back): each line is a
  # statement of its own, so that the lock is looked at right after the item update
  sts = [[k_, line] for k_, t_ in sts for line in (t_.split('\n') if k_ == 'item-aug' else [t_])]
  if rng.random() < 0.2:
    # one source line executed with different objects: the statement lives in a helper function that is called with
    # instances of the class, of another class with a same-named attribute, and with a plain object
    op = rng.choice(['+=', '+=', '-=', '|='])
    sts = [['shared-line-def', 'def bump(dst, src):\n  dst.a %s src.a' % op]]
    args = [('o', 'r'), ('r', 'o'), ('o', 'p'), ('p', 'o'), ('z', 'o'), ('o', 'z'), ('o', 'o'), ('r', 'r')]
    for _ in range(rng.randrange(2, 6)):
      a, b = rng.choice(args)
      sts.append(['shared-line', 'bump(%s, %s)' % (a, b)])
  elif rng.random() < 0.15:
    # the statement sits inside a function and names module-level objects (globals of the function, not locals)
    op = rng.choice(['+=', '-=', '|='])
    body = rng.choice(['r.a %s o.a' % op, 'o.a %s r.a' % op, 'o.a %s 3' % op, 'z.a %s o.a' % op, 'p.a %s o.a' % op, 'x = o.a', 'if o.a >= 3: pass'])
    sts = [['in-function-def', 'def gfn():\n  %s' % body]] + [['in-function', 'gfn()'] for _ in range(rng.randrange(1, 3))]
  return {'statements': sts, 'sched': {'gran': 'line', 'policy': 'sticky', 's': 1.0}}


def shrink_candidates(sc):
  if sc.get('second'):
    for key in ('statements', 'second'):
      if len(sc[key]) > 1:
        yield dict(sc, **{key: sc[key][:1]})
        yield dict(sc, **{key: sc[key][1:]})
    if sc['sched'].get('gran') == 'opcode':
      yield dict(sc, sched=dict(sc['sched'], gran='line'))
    return
  s = sc['statements']
  if len(s) > 1:
    for i in range(len(s) - 1, -1, -1):
      if s[i][0] in ('shared-line-def', 'in-function-def'):
        continue
      yield dict(sc, statements=s[:i] + s[i + 1:])


def execute(sc, sched):
  res = RunResult()
  sim = common.new_sim(sc, sched, max_steps=100000)
  cls = tc.make_class(['a', 'b'])
  o, p = cls(), cls()
  other_cls = tc.make_class(['a'], name='Other')
  r = other_cls()

  class Plain(object):
    a = 0
  z = Plain()
  texts = [st[1] for st in sc['statements']]
  # a multi-line production (the with-block) is one "statement" for the oracle: the marker comes after it
  code = tc.compile_script(texts)
  held = []
  errors = []
  reader_done = []

  texts2 = [st[1] for st in sc.get('second') or []]
  code2 = tc.compile_script(texts2) if texts2 else None

  def client(which=0):
    ns = {'o': o, 'p': p, 'r': r, 'z': z, 'x': 0, 'y': 0, 'f': lambda v: v, 'd': {'k': 0}}

    def _m(i):
      me = kernel.current_ctl()
      own = tc.locks_owned_by(me, cls, ['a', 'b']) + ['Other.' + a for a in tc.locks_owned_by(me, other_cls, ['a'])]
      if own:
        held.append((i, own) if not which else (i, own, 'second thread'))
    ns['_m'] = _m
    try:
      exec(code if not which else code2, ns)
    except kernel.SimAbort:
      raise
    except BaseException as e:  # noqa
      import traceback
      errors.append((type(e).__name__, traceback.format_exc()[-600:]))

  def reader():
    vals = (o.a, o.b, p.a, p.b)
    reader_done.append(vals)

  sim.spawn(client, role='client')
  if code2 is not None:
    sim.spawn(client, (1,), role='client')
  reason = sim.run()
  if reason != 'budget' and not errors and any(t.state != kernel.DONE for t in sim.threads if t.role == 'client'):
    stuck = [t for t in sim.threads if t.role == 'client' and t.state != kernel.DONE]
    res.violate('statement-blocked', {}, 'with %s and %s running at the same time a thread is parked for ever at %s' % (texts, texts2, stuck[0].desc))
    reason = 'blocked'
  if reason not in ('budget', 'blocked') and not errors:
    sim.spawn(reader, role='reader')
    reason = sim.run()
  if reason == 'budget':
    res.outcome, res.reason = 'inconclusive', 'step budget'
  elif errors:
    res.violate('statement-raised', {'exc': errors[0][0]}, 'statements %s raised %s\n%s' % (texts, errors[0][0], errors[0][1]))
  elif held:
    i, own = held[0][0], held[0][1]
    second = len(held[0]) > 2
    sts_ = sc['second'] if second else sc['statements']
    kind = sts_[i][0]
    res.violate('lock-held-after-statement', {'production': kind, 'threads': 2 if code2 is not None else 1},
                'after statement %d `%s` (production %s) the thread still owns the lock of attribute(s) %s%s' % (
                  i, sts_[i][1], kind, own, ('; the other thread ran %s at the same time' % (texts if second else texts2)) if code2 is not None else ''))
  elif res.outcome == 'violation':
    pass
  elif not reader_done:
    res.violate('second-thread-blocked', {}, 'after %s a second thread reading the attributes never completed' % texts)
  for t in texts:
    res.nontrivial.append(hash(kernel._stable(t)))
  if res.outcome == 'violation' or sched.get('seed', 0) % 199 == 0:
    res.sample = {'statements': texts, 'lock_held_after': held, 'second_thread_read': [list(map(repr, v)) for v in reader_done]}
  common.finish(sim, res)
  return res
