"""C27 - thread-safe attributes lose no updates and never fail under concurrency."""
import operator
import random

from sim import kernel, seams, prims
from sim.runner import RunResult
from worlds import common
from checks import tsa_common as tc

PID = 'C27'
SCHEDULE_DEPENDENT = True
RULE = ('2-4 simulated threads each execute 1-3 source-line statements on one attribute of one instance of a class built '
        'with MetaThreadSafeAttributes: reads (x = o.a), plain assignments (o.a = k) and augmented assignments (o.a OP= k, also o.a OP= o.a; in part of the runs the object is spelled with a non-ASCII name or reached through a holder, h.o.a / self.h.o.a, '
        'OP from + - * // ** << >> | & ^ %); the scheduler (sticky walk / PCT) may switch at every line and every bytecode of '
        '__get__/__set__ and of the client statements; second stratum: the attribute belongs to an ActiveObjectWithAttributes and the statements of one thread run inside the object\'s event handlers (its own thread) while client threads use the attribute from outside; third stratum: the statements live in helper functions (dst.a += src.a, dst.a += k, dst.a = k, x = src.a), so one source line is executed with objects of two classes that both declare `a`, first by one thread alone, then by 2-3 threads at once (serialisability over both values). Oracle: no statement raises; no deadlock (a thread parked for ever); '
        'serialisability: the final value and every value read are explained by some total order of the executed statements '
        'that respects each thread\'s program order (found by search over the <= 9 statements). Non-trivial = a context switch '
        'happened while a thread was between the read and the write of an augmented assignment; distinct = distinct '
        '(statement kinds per thread, interleaving of statement begin/end events) tuples.')
ASSUMPTIONS = ['single instance, single attribute (independence of instances is C29)']
PROBES = ['switch_inside_augmented_assignment', 'statements_in_active_object_handler', 'one_source_line_with_objects_of_two_classes', 'threads_with_one_name']
PLAN = {
  'quick': {'strata': {'threads': 6000, 'active-object': 1500, 'shared-lines': 2500}, 'wall_s': 300, 'chunk': 100, 'min_conclusive': 1000},
  'thorough': {'strata': {'threads': 150000, 'active-object': 40000, 'shared-lines': 60000}, 'wall_s': 900, 'chunk': 250, 'min_conclusive': 1000},
}
OPS = {'+=': operator.add, '-=': operator.sub, '*=': operator.mul, '//=': operator.floordiv, '**=': operator.pow,
       '<<=': operator.lshift, '>>=': operator.rshift, '|=': operator.or_, '&=': operator.and_, '^=': operator.xor,
       '%=': operator.mod}


def text(st):
  k = st['kind']
  if k == 'read':
    return 'x = o.a'
  if k == 'assign':
    return 'o.a = %d' % st['k']
  if k == 'augself':
    return 'o.a %s o.a' % st['op']      # the right-hand side reads the attribute again
  return 'o.a %s %d' % (st['op'], st['k'])


# ---------------------------------------------------------------- stratum "shared-lines"
# The statements live in small helper functions, so one source line is executed with different objects - of two
# classes that both declare an attribute `a` - first by one thread alone, then by several at once.
HELPERS = '''def bump(dst, src):
  dst.a += src.a
def inc(dst, k):
  dst.a += k
def put(dst, k):
  dst.a = k
def get(src):
  x = src.a
  return x
'''


def text2(st):
  o = ['p', 'q']
  if st['f'] == 'bump':
    return 'bump(%s, %s)   # %s.a += %s.a' % (o[st['dst']], o[st['src']], o[st['dst']], o[st['src']])
  if st['f'] == 'inc':
    return 'inc(%s, %d)   # %s.a += %d' % (o[st['dst']], st['k'], o[st['dst']], st['k'])
  if st['f'] == 'put':
    return 'put(%s, %d)   # %s.a = %d' % (o[st['dst']], st['k'], o[st['dst']], st['k'])
  return 'get(%s)   # x = %s.a' % (o[st['src']], o[st['src']])


def gen_shared(rng):
  uniq = [0]

  def stmt(direction):
    f = rng.choices(['bump', 'inc', 'put', 'get'], weights=[4, 3, 1, 2])[0]
    uniq[0] += 1
    if f == 'bump':
      return {'f': 'bump', 'dst': direction, 'src': 1 - direction}
    if f == 'inc':
      return {'f': 'inc', 'dst': rng.randrange(2), 'k': 10 ** (uniq[0] % 7) + uniq[0]}
    if f == 'put':
      return {'f': 'put', 'dst': rng.randrange(2), 'k': 100 + 7 * uniq[0]}
    return {'f': 'get', 'src': rng.randrange(2)}
  d1 = rng.randrange(2)
  d2 = rng.choice([d1, 1 - d1, 1 - d1])       # all concurrent bumps go one way: opposite ways can deadlock by lock order, which no listed property covers
  prefix = [stmt(d1) for _ in range(rng.randrange(1, 4))]
  if not any(st['f'] == 'bump' for st in prefix) and rng.random() < 0.7:
    prefix.append({'f': 'bump', 'dst': d1, 'src': 1 - d1})
  nthreads = rng.randrange(2, 4)
  threads = [[stmt(d2) for _ in range(rng.randrange(1, 4))] for _ in range(nthreads)]
  if not any(st['f'] == 'bump' for t in threads for st in t):
    threads[0][0] = {'f': 'bump', 'dst': d2, 'src': 1 - d2}
    if len(threads[1]) < 3:
      threads[1].append({'f': 'bump', 'dst': d2, 'src': 1 - d2})
  return {'host': 'shared-lines', 'prefix': prefix, 'threads': threads, 'same_class': rng.random() < 0.25,
          'sched': common.draw_sched(rng, grans=('line', 'opcode'), weights=(1, 2), expected_steps=300, policies=('sticky', 'pct'))}


def apply2(st, state):
  """returns (new state, value read or None)"""
  v = list(state)
  if st['f'] == 'bump':
    v[st['dst']] = v[st['dst']] + v[st['src']]
    return tuple(v), None
  if st['f'] == 'inc':
    v[st['dst']] += st['k']
    return tuple(v), None
  if st['f'] == 'put':
    v[st['dst']] = st['k']
    return tuple(v), None
  return state, state[st['src']]


def serialisable2(threads, start, reads, final, done):
  n = len(threads)
  seen = set()
  stack = [(tuple([0] * n), start)]
  while stack:
    pos, state = stack.pop()
    if (pos, state) in seen:
      continue
    seen.add((pos, state))
    if all(pos[i] >= done[i] for i in range(n)):
      if state == final:
        return True
      continue
    for i in range(n):
      if pos[i] >= done[i]:
        continue
      st = threads[i][pos[i]]
      ns, rd = apply2(st, state)
      if st['f'] == 'get':
        ri = sum(1 for x in threads[i][:pos[i]] if x['f'] == 'get')
        if ri < len(reads[i]) and reads[i][ri] != rd:
          continue
      stack.append((pos[:i] + (pos[i] + 1,) + pos[i + 1:], ns))
  return False


_helper_code = []


def execute_shared(sc, sched):
  import linecache
  res = RunResult()
  sim = common.new_sim(sc, sched, max_steps=150000)
  if not _helper_code:
    fname = '<tsa-helpers>'
    linecache.cache[fname] = (len(HELPERS), None, HELPERS.splitlines(True), fname)
    _helper_code.append(compile(HELPERS, fname, 'exec'))
  seams.enable_events_for([_helper_code[0]], opcode=True)
  ns = {}
  exec(_helper_code[0], ns)
  cls_p = tc.make_class(['a'], 'ThingP')
  cls_q = cls_p if sc.get('same_class') else tc.make_class(['a'], 'ThingQ')
  objs = [cls_p(), cls_q()]
  threads = sc['threads']
  n = len(threads)
  reads = [[] for _ in range(n)]
  done = [0] * n
  errors = []
  pre_reads = []
  go = [False]

  def run_stmt(st):
    if st['f'] == 'bump':
      ns['bump'](objs[st['dst']], objs[st['src']])
    elif st['f'] == 'inc':
      ns['inc'](objs[st['dst']], st['k'])
    elif st['f'] == 'put':
      ns['put'](objs[st['dst']], st['k'])
    else:
      return ns['get'](objs[st['src']])
    return None

  def client(k):
    try:
      if k == 0:
        for st in sc['prefix']:
          r = run_stmt(st)
          if st['f'] == 'get':
            pre_reads.append(r)
        go[0] = True
      elif not go[0]:
        sim.block(lambda: go[0], None, 'barrier')
      for i, st in enumerate(threads[k]):
        sim.record('c27', 'stmt', 'begin', (k, i))
        r = run_stmt(st)
        if st['f'] == 'get':
          reads[k].append(r)
        done[k] = i + 1
        sim.record('c27', 'stmt', 'end', (k, i))
    except kernel.SimAbort:
      raise
    except BaseException as e:  # noqa
      import traceback
      errors.append((k, done[k], type(e).__name__, traceback.format_exc()[-600:]))
      go[0] = True

  for k in range(n):
    sim.spawn(client, (k,), role='client')
  reason = sim.run()
  scripts = {'first, alone': [text2(st) for st in sc['prefix']], 'then, at once': [[text2(st) for st in t] for t in threads],
             'classes': 'p and q are instances of %s' % ('one class' if sc.get('same_class') else 'two classes that both declare a')}
  locks = [tc.lock_of(cls_p, 'a'), tc.lock_of(cls_q, 'a')]
  if reason == 'budget':
    res.outcome, res.reason = 'inconclusive', 'step budget'
  elif errors:
    k, i, typ, tb = errors[0]
    res.violate('statement-raised', {'exc': typ, 'kind': 'shared-line'}, 'thread %d statement %d raised %s\n%s\nscripts: %s' % (k, i, typ, tb, scripts))
  elif any(t.state != kernel.DONE for t in sim.threads):
    stuck = [t for t in sim.threads if t.state != kernel.DONE]
    res.violate('deadlock', {'at': stuck[0].desc.split(':')[0], 'kind': 'shared-line'},
                'threads parked for ever: %s; lock owners %s\nscripts: %s' % (
                  [(t.name, t.desc) for t in stuck], [l.owner_name() for l in locks if isinstance(l, prims.SimRLock)], scripts))
  elif any(isinstance(l, prims.SimRLock) and l._owner is not None for l in locks):
    res.violate('deadlock', {'at': 'final-read', 'kind': 'shared-line'}, 'every thread has finished but a lock is still owned (%s): reading the final values would block for ever\nscripts: %s' % (
      [l.owner_name() for l in locks if isinstance(l, prims.SimRLock)], scripts))
  else:
    final = (objs[0].a, objs[1].a)
    state = (0, 0)
    exp_pre = []
    for st in sc['prefix']:
      state, rd = apply2(st, state)
      if st['f'] == 'get':
        exp_pre.append(rd)
    if pre_reads != exp_pre:
      res.violate('not-serialisable', {'ops': ['sequential-prefix'], 'kind': 'shared-line'}, 'the statements run by one thread alone read %s, expected %s\nscripts: %s' % (pre_reads, exp_pre, scripts))
    elif not serialisable2(threads, state, reads, final, done):
      res.violate('not-serialisable', {'ops': sorted(set(st['f'] for t in threads for st in t)), 'kind': 'shared-line'},
                  'after the sequential part the values were %s; final values %r and reads %s are not explained by any serial order\nscripts: %s' % (state, final, reads, scripts))
  sim.probe('one_source_line_with_objects_of_two_classes')
  res.nontrivial.append(hash(('shared', tuple(tuple((kernel._stable(st['f']), st.get('dst', -1), st.get('src', -1)) for st in t) for t in [sc['prefix']] + threads),
                              sim.switch_signature())))
  if res.outcome == 'violation' or sched.get('seed', 0) % 499 == 0:
    res.sample = dict(scripts, reads=reads)
  common.finish(sim, res)
  return res


def generate(seed, stratum, tier):
  rng = random.Random(seed)
  if stratum == 'shared-lines':
    return gen_shared(rng)
  nthreads = rng.randrange(2, 5)
  per = 3 if nthreads <= 3 else 2
  threads = []
  uniq = 0
  for t in range(nthreads):
    sts = []
    for _ in range(rng.randrange(1, per + 1)):
      kind = rng.choices(['read', 'assign', 'aug', 'augself'], weights=[2, 2, 5, 0.6])[0]
      if kind == 'augself':
        sts.append({'kind': 'augself', 'op': rng.choice(['+=', '+=', '*=', '-=', '|='])})
        continue
      if kind == 'read':
        sts.append({'kind': 'read'})
      elif kind == 'assign':
        uniq += 1
        sts.append({'kind': 'assign', 'k': 100 + 7 * uniq})
      else:
        op = rng.choice(['+=', '+=', '+=', '-=', '*=', '//=', '**=', '<<=', '>>=', '|=', '&=', '^=', '%='])
        if op in ('+=', '-='):
          uniq += 1
          k = 10 ** (uniq % 6) + uniq
        elif op == '*=':
          k = rng.choice([2, 3, 5])
        elif op == '**=':
          k = 2
        elif op in ('<<=', '>>='):
          k = rng.choice([1, 2, 3])
        elif op in ('//=', '%='):
          k = rng.choice([2, 3, 7])
        else:
          k = rng.choice([1, 6, 12, 255])
        sts.append({'kind': 'aug', 'op': op, 'k': k})
    threads.append(sts)
  sc = {'threads': threads, 'same_names': rng.random() < 0.3,
        'sched': common.draw_sched(rng, grans=('line', 'opcode'), weights=(1, 2), expected_steps=250, policies=('sticky', 'pct'))}
  if stratum != 'active-object' and rng.random() < 0.3:
    # how the statements spell the object: a name that does not begin with an ASCII letter, or a path through a holder
    sc['objname'] = rng.choice(['\u00f6bj', 'h.o', 'self.h.o'])
  if stratum == 'active-object':
    # the documented use: the attribute belongs to an ActiveObjectWithAttributes; the statements of thread 0 are executed
    # by the object's own thread (inside its event handlers, one per posted event), the others by client threads
    sc['host'] = 'ao'
    sc['spied'] = rng.random() < 0.5
    sc['sched'] = common.draw_sched(rng, grans=('line', 'opcode'), weights=(2, 1), expected_steps=1500, policies=('sticky', 'pct', 'starve'),
                                    victims=['consumer'])
  return sc


def shrink_candidates(sc):
  if sc.get('host') == 'shared-lines':
    th = sc['threads']
    pre = sc['prefix']
    for j in range(len(pre) - 1, -1, -1):
      yield dict(sc, prefix=pre[:j] + pre[j + 1:])
    if len(th) > 2:
      for i in range(len(th)):
        yield dict(sc, threads=th[:i] + th[i + 1:])
    for i, s_ in enumerate(th):
      if len(s_) > 1:
        for j in range(len(s_) - 1, -1, -1):
          yield dict(sc, threads=th[:i] + [s_[:j] + s_[j + 1:]] + th[i + 1:])
    if sc['sched'].get('gran') == 'opcode':
      yield dict(sc, sched=dict(sc['sched'], gran='line'))
    return
  th = sc['threads']
  if len(th) > 2:
    for i in range(len(th)):
      yield dict(sc, threads=th[:i] + th[i + 1:])
  for i, s in enumerate(th):
    if len(s) > 1:
      for j in range(len(s) - 1, -1, -1):
        yield dict(sc, threads=th[:i] + [s[:j] + s[j + 1:]] + th[i + 1:])
  for i, s in enumerate(th):
    for j, st in enumerate(s):
      if st['kind'] == 'augself':
        yield dict(sc, threads=th[:i] + [s[:j] + [{'kind': 'aug', 'op': '+=', 'k': 10 ** (i + 1)}] + s[j + 1:]] + th[i + 1:])
      if st['kind'] == 'aug' and st['op'] != '+=':
        yield dict(sc, threads=th[:i] + [s[:j] + [{'kind': 'aug', 'op': '+=', 'k': 10 ** (i + 1)}] + s[j + 1:]] + th[i + 1:])
  if sc['sched'].get('gran') == 'opcode':
    yield dict(sc, sched=dict(sc['sched'], gran='line'))


def serialisable(threads, reads, final, done):
  """is there an interleaving of the executed statements (done[i] per thread) explaining
  the observed reads and the final value?"""
  n = len(threads)
  seen = set()
  stack = [(tuple([0] * n), 0, tuple([0] * n))]
  while stack:
    pos, val, rpos = stack.pop()
    if (pos, val) in seen:
      continue
    seen.add((pos, val))
    if all(pos[i] >= done[i] for i in range(n)):
      if val == final:
        return True
      continue
    for i in range(n):
      if pos[i] >= done[i]:
        continue
      st = threads[i][pos[i]]
      npos = pos[:i] + (pos[i] + 1,) + pos[i + 1:]
      if st['kind'] == 'read':
        ri = sum(1 for s in threads[i][:pos[i]] if s['kind'] == 'read')
        if ri < len(reads[i]) and reads[i][ri] != val:
          continue
        stack.append((npos, val, rpos))
      elif st['kind'] == 'assign':
        stack.append((npos, st['k'], rpos))
      else:
        try:
          nv = OPS[st['op']](val, val if st['kind'] == 'augself' else st['k'])
        except Exception:
          continue
        stack.append((npos, nv, rpos))
  return False


def handler_source(sts):
  """an event handler whose reactions are the statements of thread 0 (they must be source lines:
  ThreadSafeAttribute classifies the line of its caller)"""
  lines = ['def tsa_handler(chart, e):',
           '  if e.signal == ENTRY or e.signal == INIT or e.signal == EXIT:',
           '    return HANDLED',
           '  sn = e.signal_name']
  for i, st in enumerate(sts):
    lines.append("  if sn == 'ST%d':" % i)
    lines.append('    x = None')
    lines.append('    ' + text(st).replace('o.a', 'chart.a'))
    lines.append('    _m(%d, x)' % i)
    lines.append('    return HANDLED')
  lines += ['  chart.temp.fun = chart.top', '  return SUPER']
  return '\n'.join(lines) + '\n'


_handler_cache = {}


def execute_ao(sc, sched):
  import linecache
  res = RunResult()
  sim = common.new_sim(sc, sched, max_steps=300000)
  ao = seams.mods['activeobject']
  ev = seams.mods['event']
  hsm = seams.mods['hsm']
  n = len(sc['threads'])
  reads = [[] for _ in range(n)]
  done = [0] * n
  errors = []
  box = {}
  src = handler_source(sc['threads'][0])
  ent = _handler_cache.get(src)
  if ent is None:
    fname = '<tsa-handler-%d>' % (len(_handler_cache) + 1)
    linecache.cache[fname] = (len(src), None, src.splitlines(True), fname)
    ent = compile(src, fname, 'exec')
    if len(_handler_cache) < 5000:
      _handler_cache[src] = ent
  codes = [None] + [tc.compile_script([text(st) for st in sts]) for sts in sc['threads'][1:]]

  def _m0(i, x):
    if sc['threads'][0][i]['kind'] == 'read':
      reads[0].append(x)
    done[0] = i + 1
    sim.record('c27', 'stmt', 'end', (0, i))

  def client(k):
    o = box['o']
    if k == 0:
      # the object's own statements are triggered by events, in order
      for i in range(len(sc['threads'][0])):
        sim.record('c27', 'stmt', 'begin', (0, i))
        o.post_fifo(ev.Event(signal='ST%d' % i))
      return
    ns = {'o': o, 'x': None}

    def _m(i):
      st = sc['threads'][k][i]
      if st['kind'] == 'read':
        reads[k].append(ns['x'])
      done[k] = i + 1
      sim.record('c27', 'stmt', 'end', (k, i))
      if i + 1 < len(sc['threads'][k]):
        sim.record('c27', 'stmt', 'begin', (k, i + 1))
    ns['_m'] = _m
    sim.record('c27', 'stmt', 'begin', (k, 0))
    try:
      exec(codes[k], ns)
    except kernel.SimAbort:
      raise
    except BaseException as e:  # noqa
      import traceback
      errors.append((k, done[k], type(e).__name__, traceback.format_exc()[-600:]))

  def main():
    cls = type(ao.ActiveObjectWithAttributes)('TsaActiveObject', (ao.ActiveObjectWithAttributes,), {'_attributes': ['a']})
    d = cls.__dict__.get('a')
    for v in (vars(d).values() if d is not None and hasattr(d, '__dict__') else []):
      if isinstance(v, prims.SimRLock):
        v._label = 'rlock:TsaActiveObject.a'
    box['cls'] = cls
    o = cls(name='tsa')
    box['o'] = o
    rs, signals = ev.return_status, ev.signals
    ns = {'ENTRY': signals.ENTRY_SIGNAL, 'INIT': signals.INIT_SIGNAL, 'EXIT': signals.EXIT_SIGNAL, 'HANDLED': rs.HANDLED,
          'SUPER': rs.SUPER, '_m': _m0}
    exec(ent, ns)
    h = ns['tsa_handler']
    seams.enable_events_for([h.__code__], opcode=True)
    o.start_at(hsm.spy_on(h) if sc.get('spied') else h)
    for k in range(n):
      sim.spawn(client, (k,), role='client')

  sim.spawn(main, role='main')
  reason = sim.run()
  o = box.get('o')
  lock = tc.lock_of(box['cls'], 'a') if 'cls' in box else None
  scripts = [['(in the object\'s handler) ' + text(s).replace('o.a', 'chart.a') for s in sc['threads'][0]]] + [[text(s) for s in t] for t in sc['threads'][1:]]
  stuck = [t for t in sim.threads if t.state != kernel.DONE and (t.role in ('client', 'main') or (t.role == 'consumer' and not t.desc.startswith('get:')))]
  if reason == 'budget':
    res.outcome, res.reason = 'inconclusive', 'step budget'
  elif errors:
    k, i, typ, tb = errors[0]
    st = sc['threads'][k][i] if i < len(sc['threads'][k]) else None
    res.violate('statement-raised', {'exc': typ, 'kind': st['kind'] if st else None},
                'thread %d statement %d `%s` raised %s\n%s\nscripts: %s' % (k, i, text(st) if st else '?', typ, tb, scripts))
  elif sim.thread_errors:
    name, typ, msg, tb = sim.thread_errors[0]
    res.violate('statement-raised', {'exc': typ, 'kind': 'in-handler'}, '%s died: %s: %s\n%s\nscripts: %s' % (name, typ, msg, tb[-600:], scripts))
  elif stuck:
    res.violate('deadlock', {'at': stuck[0].desc.split(':')[0]},
                'threads parked for ever: %s; lock owner %s\nscripts: %s' % (
                  [(t.name, t.desc) for t in stuck], lock.owner_name() if isinstance(lock, prims.SimRLock) else '?', scripts))
  elif done[0] < len(sc['threads'][0]):
    res.outcome, res.reason = 'inconclusive', 'the object did not run all of its statements'
  elif isinstance(lock, prims.SimRLock) and lock._owner is not None:
    res.violate('deadlock', {'at': 'final-read'}, 'every statement has finished but %s still owns the attribute\'s lock: reading the final value would block for ever\nscripts: %s' % (lock.owner_name(), scripts))
  else:
    final = o.a
    if not serialisable(sc['threads'], reads, final, done):
      res.violate('not-serialisable', {'ops': sorted(set(st['kind'] for t in sc['threads'] for st in t)), 'host': 'active-object'},
                  'final value %r and reads %s are not explained by any serial order of %s' % (final, reads, scripts))
  sim.probe('statements_in_active_object_handler')
  res.nontrivial.append(hash(('ao', tuple(tuple(kernel._stable(text(s).split()[1]) for s in t) for t in sc['threads']), sim.switch_signature())))
  if res.outcome == 'violation' or sched.get('seed', 0) % 499 == 0:
    res.sample = {'host': 'ActiveObjectWithAttributes', 'scripts': scripts, 'reads': reads}
  common.finish(sim, res)
  return res


def execute(sc, sched):
  if sc.get('host') == 'ao':
    return execute_ao(sc, sched)
  if sc.get('host') == 'shared-lines':
    return execute_shared(sc, sched)
  res = RunResult()
  sim = common.new_sim(sc, sched, max_steps=150000)
  cls = tc.make_class(['a'])
  o = cls()
  objname = sc.get('objname', 'o')
  codes = [tc.compile_script([text(st).replace('o.a', objname + '.a') for st in sts]) for sts in sc['threads']]
  n = len(sc['threads'])
  reads = [[] for _ in range(n)]
  done = [0] * n
  errors = []
  inflight = {}
  import types
  holder = types.SimpleNamespace(o=o)

  def client(k):
    ns = {'o': o, 'x': None, '\u00f6bj': o, 'h': holder, 'self': types.SimpleNamespace(h=holder)}

    def _m(i):
      st = sc['threads'][k][i]
      if st['kind'] == 'read':
        reads[k].append(ns['x'])
      done[k] = i + 1
      sim.record('c27', 'stmt', 'end', (k, i))
      if i + 1 < len(sc['threads'][k]):
        sim.record('c27', 'stmt', 'begin', (k, i + 1))
    ns['_m'] = _m
    sim.record('c27', 'stmt', 'begin', (k, 0))
    try:
      exec(codes[k], ns)
    except kernel.SimAbort:
      raise
    except BaseException as e:  # noqa
      import traceback
      errors.append((k, done[k], type(e).__name__, traceback.format_exc()[-600:]))

  if sc.get('same_names'):
    # the threads are made with threading.Thread and carry one and the same name (pool workers): nothing may tell
    # threads apart by their name
    def main():
      ths = []
      for k in range(n):
        t = prims.SimThread(target=client, args=(k,))
        t.name = 'worker'
        ths.append(t)
      for t in ths:
        t.start()
    sim.spawn(main, role='main')
    sim.probe('threads_with_one_name')
  else:
    for k in range(n):
      sim.spawn(client, (k,), role='client')
  reason = sim.run()
  lock = tc.lock_of(cls, 'a')
  if reason == 'budget':
    res.outcome, res.reason = 'inconclusive', 'step budget'
  elif errors:
    k, i, typ, tb = errors[0]
    st = sc['threads'][k][i] if i < len(sc['threads'][k]) else None
    res.violate('statement-raised', {'exc': typ, 'kind': st['kind'] if st else None},
                'thread %d statement %d `%s` raised %s\n%s\nscripts: %s' % (k, i, text(st) if st else '?', typ, tb, [[text(s) for s in t] for t in sc['threads']]))
  elif any(t.state != kernel.DONE for t in sim.threads):
    stuck = [t for t in sim.threads if t.state != kernel.DONE]
    res.violate('deadlock', {'at': stuck[0].desc.split(':')[0]},
                'threads parked for ever: %s; lock owner %s\nscripts: %s' % (
                  [(t.name, t.desc) for t in stuck], lock.owner_name() if isinstance(lock, prims.SimRLock) else '?',
                  [[text(s) for s in t] for t in sc['threads']]))
  elif isinstance(lock, prims.SimRLock) and lock._owner is not None:
    res.violate('deadlock', {'at': 'final-read'}, 'every thread has finished but %s still owns the attribute\'s lock: reading the final value would block for ever\nscripts: %s' % (
      lock.owner_name(), [[text(s) for s in t] for t in sc['threads']]))
  else:
    final = o.a
    if not serialisable(sc['threads'], reads, final, done):
      res.violate('not-serialisable', {'ops': sorted(set(st['kind'] for t in sc['threads'] for st in t))},
                  'final value %r and reads %s are not explained by any serial order of %s' % (
                    final, reads, [[text(s) for s in t] for t in sc['threads']]))
  # reach: a switch while some thread is inside an augmented assignment
  order = []
  inside = set()
  hit = False
  last_thread = None
  for seq, tn, kind, label, op, detail in sim.history:
    if kind == 'c27':
      k, i = detail
      order.append((op == 'begin', k, i))
  # approximate "switch inside augmented assignment" by overlapping statement intervals
  open_ = {}
  for b, k, i in order:
    if b:
      if any(sc['threads'][kk][ii]['kind'] in ('aug', 'augself') for kk, ii in open_.items() if kk != k):
        hit = True
      open_[k] = i
    else:
      open_.pop(k, None)
  if hit:
    sim.probe('switch_inside_augmented_assignment')
    res.nontrivial.append(hash((tuple(tuple(kernel._stable(text(s).split()[1]) for s in t) for t in sc['threads']), tuple(order))))
  if res.outcome == 'violation' or sched.get('seed', 0) % 499 == 0:
    res.sample = {'scripts': [[text(s) for s in t] for t in sc['threads']], 'reads': reads,
                  'final': repr(getattr(o, 'a', None)) if res.outcome != 'violation' else None,
                  'statement_events': [('begin' if b else 'end', k, i) for b, k, i in order][:30]}
  common.finish(sim, res)
  return res
