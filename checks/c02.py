"""C02 - events bubble outward; handled or ignored events change nothing."""
import random

from checks import chart_common as cc
from models import chart_oracles as co

PID = 'C02'
SCHEDULE_DEPENDENT = False
RULE = ('as C01, with reaction tables biased towards "decline" (guard fails, UNHANDLED) and "no reaction" on long '
        'ancestor chains and signals nobody handles; oracle: the sequence of states offered the user event (recorded '
        'inside the handler bodies) equals the bubble path of the reference model, declines/hooks run in that order, '
        'and for handled/ignored steps no entry/exit/init handler runs and the state is unchanged. Non-trivial = a '
        'step whose bubble path has >= 2 states; distinct = distinct (outcome kind, bubble length, number of declines) tuples.')
ASSUMPTIONS = ['no schedule dimension']
PROBES = []
PLAN = {
  'quick': {'strata': {'bubble': 6000}, 'wall_s': 300, 'chunk': 100, 'min_conclusive': 1000},
  'thorough': {'strata': {'bubble': 150000}, 'wall_s': 900, 'chunk': 250, 'min_conclusive': 1000},
}
ORACLES = [lambda run, res: co.check_transitions(run, res, want=('C02',))]


def generate(seed, stratum, tier):
  rng = random.Random(seed)
  kw = {'shape': rng.choice(['chain', 'chain', 'random']), 'p_react': rng.choice([0.2, 0.4, 0.6]),
        'decline_bias': rng.choice([0.3, 0.5]), 'nsignals': rng.randrange(3, 7),
        'p_decline_query': rng.choice([0.0, 0.3, 0.6])}     # guards that look at the chart (is_in, child_state) and then decline
  # is_in/child_state queries between steps must not change what the next event does
  return cc.gen_chart_scenario(rng, spec_kw=kw, ops=('ev', 'is_in', 'child'), weights=(8, 1, 1))


shrink_candidates = cc.shrink_chart


def execute(sc, sched):
  res = cc.run_and_judge(sc, sched, ORACLES, collect=collect)
  return res


def collect(run, res):
  res.nontrivial[:] = []
  for i, ob, preds, segs in co.iter_dispatches(run):
    for p in preds:
      if p and len(p.get('bubble', [])) >= 2:
        res.nontrivial.append(hash((p['kind'], len(p['bubble']), sum(1 for a in p['actions'] if a[0] == 'decline'))))
