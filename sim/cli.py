import argparse
import os
import sys


def main(argv=None):
  ap = argparse.ArgumentParser(prog='verif')
  sub = ap.add_subparsers(dest='cmd', required=True)
  c = sub.add_parser('check')
  c.add_argument('pid')
  c.add_argument('--tier', default='quick', choices=['quick', 'thorough'])
  c.add_argument('--seed', type=int, default=None)
  c.add_argument('--jobs', type=int, default=None)
  c.add_argument('--budget', type=float, default=None)
  r = sub.add_parser('replay')
  r.add_argument('path')
  s = sub.add_parser('selftest')
  s.add_argument('--quick', action='store_true')
  s.add_argument('--n', type=int, default=None)
  s.add_argument('--digests', default=None, help='print digests for these properties (comma list) and exit')
  a = ap.parse_args(argv)
  from sim import runner
  if a.cmd == 'check':
    tier = os.environ.get('VERIF_TIER') or a.tier
    if tier not in ('quick', 'thorough'):
      tier = a.tier
    return runner.run_check(a.pid.upper(), tier, a.seed, a.jobs, a.budget)
  if a.cmd == 'replay':
    return runner.replay_file(a.path)
  if a.cmd == 'selftest':
    from sim import selftest
    return selftest.main(a)
  return 2


if __name__ == '__main__':
  sys.exit(main())
