"""Deterministic simulation kernel: baton-passing real threads, virtual time,
seeded scheduling policies, pre-emption through sys.monitoring.

One Sim object is one simulated execution.  Every simulated thread is a real
threading.Thread that may only run while it holds the baton (its private
semaphore was released by the previous holder).  The controller (the real thread
that created the Sim) only runs while no simulated thread holds the baton.

Nothing in here reads a real clock or an un-seeded PRNG.
"""
import sys
import threading as _threading
import random as _random

_RealThread = _threading.Thread
_RealSemaphore = _threading.Semaphore
_tls = _threading.local()

NEW, RUNNABLE, BLOCKED, SLEEPING, DONE = range(5)
STATE_NAMES = ['NEW', 'RUNNABLE', 'BLOCKED', 'SLEEPING', 'DONE']

G_SYNC, G_LINE, G_OPCODE = 0, 1, 2
GRAN_NAMES = {G_SYNC: 'sync', G_LINE: 'line', G_OPCODE: 'opcode'}


class SimAbort(BaseException):
  """Raised inside simulated threads when the run is over (teardown/budget)."""


class HarnessError(Exception):
  """The simulator itself is broken or met something it cannot model."""


def current_ctl():
  return getattr(_tls, 'ctl', None)


def current_sim():
  c = getattr(_tls, 'ctl', None)
  if c is not None:
    return c.sim
  return getattr(_tls, 'building_sim', None)


class Ctl(object):
  """Control block of one simulated thread."""
  __slots__ = ('sim', 'name', 'idx', 'sem', 'state', 'cond', 'wake_at', 'real',
               'target', 'args', 'kwargs', 'exc', 'role', 'desc', 'prio',
               'result', 'daemon', 'user', 'timed_out', 'started_seq', 'ended_seq',
               'steps', 'atomic')

  def __init__(self, sim, name, idx, target, args, kwargs, role):
    self.sim = sim
    self.name = name
    self.idx = idx
    self.sem = _RealSemaphore(0)
    self.state = RUNNABLE
    self.cond = None
    self.wake_at = None
    self.target = target
    self.args = args
    self.kwargs = kwargs
    self.exc = None
    self.role = role
    self.desc = ''
    self.prio = 0
    self.result = None
    self.user = None
    self.timed_out = False
    self.started_seq = None
    self.ended_seq = None
    self.steps = 0
    self.atomic = 0   # > 0: inside a stub operation that is atomic in CPython (queue mutex held)

  def __repr__(self):
    return '<Ctl %s %s>' % (self.name, STATE_NAMES[self.state])


# ------------------------------------------------------------------ policies
class Policy(object):
  name = 'base'

  def attach(self, sim):
    self.sim = sim

  def on_spawn(self, ctl):
    pass

  def choose(self, cands, cur):
    raise NotImplementedError

  def describe(self):
    return {'name': self.name}


class StickyRandom(Policy):
  """continue the current thread with probability s, else uniform"""
  name = 'sticky'

  def __init__(self, rng, s):
    self.rng = rng
    self.s = s

  def choose(self, cands, cur):
    if cur is not None and self.s > 0 and cur in cands:
      if self.rng.random() < self.s:
        return cur
    return cands[self.rng.randrange(len(cands))]

  def describe(self):
    return {'name': self.name, 's': self.s}


class PCT(Policy):
  """Probabilistic concurrency testing: random priorities, d-1 change points."""
  name = 'pct'

  def __init__(self, rng, depth, expected_steps):
    self.rng = rng
    self.depth = depth
    self.expected = max(2, expected_steps)
    self.change_points = sorted(rng.randrange(1, self.expected) for _ in range(max(0, depth - 1)))
    self.low = 0

  def on_spawn(self, ctl):
    # random priority in (1, 2): distinct with probability ~1
    ctl.prio = 1.0 + self.rng.random()

  def choose(self, cands, cur):
    step = self.sim.choice_points
    while self.change_points and self.change_points[0] <= step:
      self.change_points.pop(0)
      if cur is not None:
        self.low -= 1
        cur.prio = float(self.low)  # lower than every initial priority
    best = cands[0]
    for c in cands:
      if c.prio > best.prio:
        best = c
    return best

  def describe(self):
    return {'name': self.name, 'depth': self.depth}


class Starve(Policy):
  """sticky random, but threads whose role is in `victims` are not scheduled for
  `length` choice points (starting at choice point `start`) unless nothing else can run."""
  name = 'starve'

  def __init__(self, rng, s, victims, start, length):
    self.rng = rng
    self.s = s
    self.victims = tuple(victims)
    self.start = start
    self.end = start + length

  def choose(self, cands, cur):
    cp = self.sim.choice_points
    if self.start <= cp < self.end:
      rest = [c for c in cands if c.role not in self.victims]
      if rest:
        self.sim.fault('starve')
        cands = rest
    if cur is not None and cur in cands and self.rng.random() < self.s:
      return cur
    return cands[self.rng.randrange(len(cands))]

  def describe(self):
    return {'name': self.name, 's': self.s, 'victims': list(self.victims),
            'start': self.start, 'len': self.end - self.start}


class RoundRobin(Policy):
  """fair: each runnable thread gets `quantum` pre-emption points in creation order"""
  name = 'rr'

  def __init__(self, quantum):
    self.quantum = max(1, quantum)
    self.left = self.quantum
    self.last = None

  def choose(self, cands, cur):
    if cur is not None and cur in cands and cur is self.last and self.left > 0:
      self.left -= 1
      return cur
    # next in creation order after the last scheduled thread
    last_idx = self.last.idx if self.last is not None else -1
    nxt = None
    for c in cands:
      if c.idx > last_idx:
        nxt = c
        break
    if nxt is None:
      nxt = cands[0]
    self.last = nxt
    self.left = self.quantum - 1
    return nxt

  def describe(self):
    return {'name': self.name, 'quantum': self.quantum}


class Phased(Policy):
  """policy `first` for the first `switch_at` choice points, then `then` (used for
  "arbitrary prefix, fair suffix" bounded-liveness checks)"""
  name = 'phased'

  def __init__(self, first, switch_at, then):
    self.first, self.switch_at, self.then = first, switch_at, then

  def attach(self, sim):
    self.sim = sim
    self.first.attach(sim)
    self.then.attach(sim)

  def on_spawn(self, ctl):
    self.first.on_spawn(ctl)
    self.then.on_spawn(ctl)

  def choose(self, cands, cur):
    if self.sim.choice_points <= self.switch_at:
      return self.first.choose(cands, cur)
    return self.then.choose(cands, cur)

  def describe(self):
    return {'name': self.name, 'first': self.first.describe(), 'switch_at': self.switch_at, 'then': self.then.describe()}


class Replay(Policy):
  """explicit decision list: one entry per choice point at which more than one
  thread could run; entry = thread idx, or None for 'default' (continue the current
  thread if it can run, else the oldest runnable thread)."""
  name = 'replay'

  def __init__(self, decisions):
    self.decisions = list(decisions)
    self.pos = 0
    self.diverged = 0

  def choose(self, cands, cur):
    d = None
    if self.pos < len(self.decisions):
      d = self.decisions[self.pos]
    self.pos += 1
    if d is not None:
      for c in cands:
        if c.idx == d:
          return c
      self.diverged += 1
    if cur is not None and cur in cands:
      return cur
    return cands[0]

  def describe(self):
    return {'name': self.name, 'n': len(self.decisions)}


# ------------------------------------------------------------------ the simulator
class Sim(object):

  def __init__(self, seed, policy=None, gran=G_LINE, max_steps=200000,
               horizon_us=None, record_steps=False):
    self.seed = seed
    self.rng_sched = _random.Random(seed * 4 + 0)
    self.rng_fault = _random.Random(seed * 4 + 1)
    self.rng_misc = _random.Random(seed * 4 + 2)
    self.policy = policy if policy is not None else StickyRandom(self.rng_sched, 0.9)
    self.policy.attach(self)
    self.gran = gran
    self.max_steps = max_steps
    self.horizon_us = horizon_us
    self.threads = []
    self.current = None
    self.now_us = 0
    self.seq = 0            # global event sequence number (history records)
    self.steps = 0          # pre-emption points met
    self.choice_points = 0  # points at which more than one thread could run
    self.switches = 0
    self.decisions = []
    self.record_decisions = True
    self.history = []       # semantic records: (seq, thread name, kind, label, op, detail)
    self.history_t = []     # virtual time (us) of each history record, same index
    self.digest = 0
    self.aborting = False
    self.finished = None    # reason
    self.ctrl_sem = _RealSemaphore(0)
    self.ctrl_reason = None
    self.faults = {}
    self.probes = {}
    self.counters = {}
    self.role_counts = {}
    self.labels = {}
    self.stall_plan = {}    # step index -> microseconds
    self.stall_roles = None # if set: only threads of these roles are stalled
    self.jitter_us = None   # callable(ctl, d_us) -> extra us, or None
    self.record_steps = record_steps
    self.step_log = [] if record_steps else None
    self.thread_errors = []
    self.printed = []
    self.monitors = []      # callables(sim) run at every pre-emption point
    self.switch_trace = []  # abstract trace at context switches (for distinct-interleaving count)
    self.owner_ident = _threading.get_ident()
    self.state_fn = None        # world-supplied abstract state (hashable), sampled at context switches
    self.abstract_states = set()
    self.opcode_roles = None

  # ---------------------------------------------------------------- bookkeeping
  def fault(self, kind, n=1):
    self.faults[kind] = self.faults.get(kind, 0) + n

  def probe(self, name, n=1):
    self.probes[name] = self.probes.get(name, 0) + n

  def count(self, name, n=1):
    self.counters[name] = self.counters.get(name, 0) + n

  def label(self, kind):
    n = self.labels.get(kind, 0) + 1
    self.labels[kind] = n
    return '%s#%d' % (kind, n)

  def record(self, kind, label, op, detail=None):
    """append a semantic history record; returns its seq"""
    if self.aborting:
      return self.seq
    self.seq += 1
    c = getattr(_tls, 'ctl', None)
    tname = c.name if c is not None else 'ctrl'
    self.history.append((self.seq, tname, kind, label, op, detail))
    self.history_t.append(self.now_us)
    self.digest = hash((self.digest, self.seq, c.idx if c is not None else -1,
                        _stable(kind), _stable(label), _stable(op)))
    return self.seq

  def now(self):
    return self.now_us / 1e6

  # ---------------------------------------------------------------- threads
  def spawn(self, target, args=(), kwargs=None, role='thread', name=None, user=None):
    n = self.role_counts.get(role, 0) + 1
    self.role_counts[role] = n
    if name is None:
      name = '%s#%d' % (role, n)
    ctl = Ctl(self, name, len(self.threads), target, args, kwargs or {}, role)
    ctl.user = user
    self.threads.append(ctl)
    self.policy.on_spawn(ctl)
    ctl.started_seq = self.seq
    real = _RealThread(target=self._bootstrap, args=(ctl,), daemon=True,
                       name='sim-' + name)
    ctl.real = real
    real.start()
    return ctl

  def _bootstrap(self, ctl):
    _tls.ctl = ctl
    ctl.sem.acquire()
    try:
      if self.aborting:
        return
      try:
        ctl.result = ctl.target(*ctl.args, **ctl.kwargs)
      except SimAbort:
        pass
      except BaseException as e:  # noqa
        ctl.exc = e
        if not self.aborting:
          import traceback
          self.thread_errors.append((ctl.name, type(e).__name__, str(e)[:300],
                                     traceback.format_exc()[-1500:]))
          self.record('thread', ctl.name, 'died', type(e).__name__)
    finally:
      ctl.state = DONE
      ctl.ended_seq = self.seq
      _tls.ctl = None
      if not self.aborting:
        try:
          self._dispatch_next(None)
        except SimAbort:
          pass

  def _candidates(self):
    out = []
    now = self.now_us
    for t in self.threads:
      s = t.state
      if s == RUNNABLE:
        out.append(t)
      elif s == BLOCKED:
        if t.cond():
          out.append(t)
        elif t.wake_at is not None and t.wake_at <= now:
          out.append(t)
      elif s == SLEEPING:
        if t.wake_at <= now:
          out.append(t)
    return out

  def _pick(self, cands, cur):
    if len(cands) == 1:
      return cands[0]
    self.choice_points += 1
    nxt = self.policy.choose(cands, cur)
    if self.record_decisions:
      self.decisions.append(nxt.idx)
    return nxt

  def _hand_over(self, nxt, frm):
    """give the baton to nxt; the caller must afterwards wait on its own semaphore
    (or return, if it is finished)."""
    self.current = nxt
    if nxt is not frm:
      self.switches += 1
      if len(self.switch_trace) < 400:
        self.switch_trace.append((frm.role if frm is not None else '-', nxt.role, nxt.desc))
      if self.state_fn is not None and len(self.abstract_states) < 3000:
        try:
          self.abstract_states.add(self.state_fn())
        except Exception:
          pass
    if nxt.state == BLOCKED:
      nxt.timed_out = not nxt.cond()
    nxt.state = RUNNABLE
    nxt.cond = None
    nxt.wake_at = None
    nxt.sem.release()

  def _dispatch_next(self, frm):
    """called by a thread that cannot continue (blocked, sleeping, finished) or by
    the controller: find someone to run, advancing virtual time if needed."""
    while True:
      cands = self._candidates()
      if cands:
        nxt = self._pick(cands, None)
        self._hand_over(nxt, frm)
        return
      t = None
      for th in self.threads:
        if th.state in (SLEEPING, BLOCKED) and th.wake_at is not None:
          if t is None or th.wake_at < t:
            t = th.wake_at
      if t is None:
        self._to_controller('quiescent')
        return
      if self.horizon_us is not None and t > self.horizon_us:
        self.now_us = self.horizon_us
        self._to_controller('horizon')
        return
      self.now_us = t

  def _to_controller(self, reason):
    self.current = None
    self.ctrl_reason = reason
    self.ctrl_sem.release()

  # ---------------------------------------------------------------- called by simulated threads
  def yield_point(self, kind=0, a=0, b=0):
    ctl = getattr(_tls, 'ctl', None)
    if ctl is None or ctl.sim is not self:
      return
    if self.aborting:
      raise SimAbort()
    if ctl.atomic:
      return
    self.steps += 1
    ctl.steps += 1
    if self.steps > self.max_steps:
      self._finish('budget')
      raise SimAbort()
    self.digest = hash((self.digest, ctl.idx, kind, a, b))
    if self.step_log is not None:
      self.step_log.append((ctl.name, kind, a, b))
    if self.monitors:
      for m in self.monitors:
        m(self)
    if self.stall_plan:
      d = self.stall_plan.pop(self.steps, None)
      if d is not None:
        if self.stall_roles is not None and ctl.role not in self.stall_roles:
          # this stall is meant for another kind of thread: keep it armed for the next step
          self.stall_plan[self.steps + 1] = d
        else:
          self.fault('stall')
          self._sleep(ctl, d, 'stall')
          return
    cands = self._candidates()
    if len(cands) == 1 and cands[0] is ctl:
      return
    nxt = self._pick(cands, ctl)
    if nxt is ctl:
      return
    self._hand_over(nxt, ctl)
    ctl.sem.acquire()
    if self.aborting:
      raise SimAbort()

  def block(self, cond, timeout_us=None, desc=''):
    """park the calling thread until cond() is true (returns True) or the timeout
    passes (returns False)."""
    ctl = getattr(_tls, 'ctl', None)
    if ctl is None or ctl.sim is not self:
      raise HarnessError('blocking operation (%s) outside a simulated thread' % desc)
    if self.aborting:
      raise SimAbort()
    ctl.state = BLOCKED
    ctl.cond = cond
    ctl.desc = desc
    ctl.wake_at = None if timeout_us is None else self.now_us + int(timeout_us)
    ctl.timed_out = False
    self._dispatch_next(ctl)
    ctl.sem.acquire()
    ctl.desc = ''
    if self.aborting:
      raise SimAbort()
    return not ctl.timed_out

  def _sleep(self, ctl, d_us, desc='sleep'):
    if self.aborting:
      raise SimAbort()
    ctl.state = SLEEPING
    ctl.desc = desc
    ctl.wake_at = self.now_us + max(0, int(d_us))
    self._dispatch_next(ctl)
    ctl.sem.acquire()
    ctl.desc = ''
    if self.aborting:
      raise SimAbort()

  def sleep(self, seconds):
    ctl = getattr(_tls, 'ctl', None)
    if ctl is None or ctl.sim is not self:
      raise HarnessError('sleep outside a simulated thread')
    d = int(round(seconds * 1e6))
    if self.jitter_us is not None:
      j = self.jitter_us(ctl, d)
      if j:
        self.fault('timer_jitter')
        d += j
    self.yield_point(3, 1, 0)
    self._sleep(ctl, d)

  # ---------------------------------------------------------------- controller side
  def run(self, horizon_us=None):
    """give the baton to the simulated threads; returns when nothing can run any
    more ('quiescent'), the horizon is reached ('horizon') or the step budget is
    exhausted ('budget')."""
    if self.finished:
      return self.finished
    if horizon_us is not None:
      self.horizon_us = horizon_us
    self.ctrl_reason = None
    self._dispatch_next(None)
    self.ctrl_sem.acquire()
    return self.ctrl_reason

  def _finish(self, reason):
    if self.finished is None:
      self.finished = reason
    self.aborting = True
    self.ctrl_reason = reason
    self.ctrl_sem.release()

  def teardown(self, join_timeout=10.0):
    """end the run: every parked thread is released with the sticky abort flag and
    every real thread is joined before this returns."""
    self.aborting = True
    if self.finished is None:
      self.finished = 'teardown'
    for t in self.threads:
      if t.state != DONE:
        t.sem.release()
    stuck = []
    for t in self.threads:
      t.real.join(join_timeout)
      if t.real.is_alive():
        stuck.append(t.name)
    if stuck:
      raise HarnessError('threads did not unwind at teardown: %s' % stuck)

  # ---------------------------------------------------------------- views
  def blocked_threads(self):
    return [t for t in self.threads if t.state == BLOCKED]

  def live_threads(self, role=None):
    return [t for t in self.threads if t.state != DONE and (role is None or t.role == role)]

  def switch_signature(self):
    return hash(tuple((_stable(a), _stable(b), _stable(c)) for a, b, c in self.switch_trace))


_stable_cache = {}


def _stable(x):
  """a hash input that does not depend on PYTHONHASHSEED"""
  if x is None:
    return 0
  if isinstance(x, int):
    return x
  if isinstance(x, str):
    h = _stable_cache.get(x)
    if h is None:
      h = 1469598103934665603
      for ch in x:
        h = ((h ^ ord(ch)) * 1099511628211) & 0xFFFFFFFFFFFFFFFF
      if len(_stable_cache) < 100000:
        _stable_cache[x] = h
    return h
  if isinstance(x, float):
    return int(x * 1e6)
  if isinstance(x, tuple):
    h = 7
    for i in x:
      h = (h * 1000003 + _stable(i)) & 0xFFFFFFFFFFFFFFFF
    return h
  return _stable(repr(x))


# ------------------------------------------------------------------ sys.monitoring hooks
TOOL_ID = 4
_mon_installed = False
_code_index = {}      # id(code object) -> stable identifier.  By identity: code objects compare by value (two generated
                      # functions with the same text are equal), a dict keyed by them would hand one function the
                      # identifier of a look-alike compiled earlier in this process
_code_keep = []       # keeps the code objects alive so that their ids are never reused
_line_codes = []
_opcode_codes = []


def _on_line(code, lineno):
  ctl = getattr(_tls, 'ctl', None)
  if ctl is None:
    return
  sim = ctl.sim
  if sim.gran >= G_LINE:
    sim.yield_point(1, _code_index.get(id(code), 0), lineno)
  else:
    # still counts against the step budget so that a loop with no
    # synchronisation in it cannot hang the run
    if sim.aborting:
      raise SimAbort()
    sim.steps += 1
    if sim.steps > sim.max_steps:
      sim._finish('budget')
      raise SimAbort()


def _on_instruction(code, offset):
  ctl = getattr(_tls, 'ctl', None)
  if ctl is None:
    return
  sim = ctl.sim
  if sim.gran >= G_OPCODE:
    sim.yield_point(2, _code_index.get(id(code), 0), offset)


def collect_code_objects(root_code):
  out = []
  stack = [root_code]
  while stack:
    c = stack.pop()
    out.append(c)
    for k in c.co_consts:
      if hasattr(k, 'co_code'):
        stack.append(k)
  return out


def install_monitoring(line_codes, opcode_codes=()):
  """enable LINE events on line_codes and INSTRUCTION events on opcode_codes
  (idempotent; additional code objects may be added by later calls)."""
  global _mon_installed
  mon = sys.monitoring
  if not _mon_installed:
    if mon.get_tool(TOOL_ID) is None:
      mon.use_tool_id(TOOL_ID, 'miros-sim')
    mon.register_callback(TOOL_ID, mon.events.LINE, _on_line)
    mon.register_callback(TOOL_ID, mon.events.INSTRUCTION, _on_instruction)
    _mon_installed = True
  ops = set(id(c) for c in opcode_codes)
  for c in list(line_codes) + list(opcode_codes):
    if id(c) not in _code_index:
      # an identifier that does not depend on what else this process has compiled or in which order
      fn = c.co_filename
      if fn.startswith('<'):
        import linecache
        fn = ''.join(linecache.getlines(fn))
      else:
        fn = fn.rsplit('/', 1)[-1]
      _code_index[id(c)] = _stable((fn, c.co_qualname, c.co_firstlineno)) & 0xFFFFFFFFFFFF
      _code_keep.append(c)
    ev = mon.events.LINE
    if id(c) in ops:
      ev |= mon.events.INSTRUCTION
    cur = mon.get_local_events(TOOL_ID, c)
    if cur | ev != cur:
      mon.set_local_events(TOOL_ID, c, cur | ev)


# ------------------------------------------------------------------ reach: miros lines executed
# A second sys.monitoring tool that only records which lines of the miros functions were ever
# executed by this process (each location reports once, then switches itself off).  It never
# touches the simulator, draws no random number and is not part of any digest.
COV_TOOL_ID = 3
_cov_installed = False
_cov_hit = set()        # (file basename, line)
_cov_all = {}           # (file basename, line) -> qualname of the function it belongs to


def _on_cov_line(code, lineno):
  _cov_hit.add((code.co_filename.rsplit('/', 1)[-1], lineno))
  return sys.monitoring.DISABLE


def install_coverage(codes):
  global _cov_installed
  mon = sys.monitoring
  if not _cov_installed:
    if mon.get_tool(COV_TOOL_ID) is None:
      mon.use_tool_id(COV_TOOL_ID, 'miros-sim-reach')
    mon.register_callback(COV_TOOL_ID, mon.events.LINE, _on_cov_line)
    _cov_installed = True
  for c in codes:
    fn = c.co_filename.rsplit('/', 1)[-1]
    new = False
    for _s, _e, ln in c.co_lines():
      if ln is not None and ln != c.co_firstlineno and (fn, ln) not in _cov_all:
        _cov_all[(fn, ln)] = c.co_qualname
        new = True
    if new or not mon.get_local_events(COV_TOOL_ID, c):
      mon.set_local_events(COV_TOOL_ID, c, mon.events.LINE)


def coverage_take():
  """lines hit since the last call (the worker sends these to the parent)"""
  out = set(_cov_hit)
  _cov_hit.clear()
  return out


def coverage_universe():
  return dict(_cov_all)

