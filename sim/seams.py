"""Seam scanner: replaces the stdlib objects bound in the miros modules by the
simulated ones, resets process-global miros state in place between runs,
fingerprints the tree and enables pre-emption events on miros' code objects."""
import builtins
import collections
import copy
import datetime as _datetime
import hashlib
import importlib
import os
import queue as _queue
import sys
import threading as _threading
import time as _time
import types
import uuid as _uuid
import pprint as _pprint

from . import kernel, prims

REPO = os.environ.get('MIROS_REPO', '/repo')
MODULES = ['miros.singleton', 'miros.event', 'miros.thread_safe_attributes', 'miros.hsm',
           'miros.activeobject']

_installed = False
mods = {}
anchors_missing = []

_time_facade = prims.SimTimeModule()
_uuid_facade = prims.SimUUIDModule()


class _ThreadingFacade(types.ModuleType):
  def __init__(self):
    types.ModuleType.__init__(self, 'threading')
  Thread = prims.SimThread
  Event = prims.SimEvent
  RLock = prims.SimRLock
  Lock = prims.SimLock
  Condition = prims.SimCondition
  Semaphore = prims.SimSemaphore
  BoundedSemaphore = prims.SimBoundedSemaphore
  Timer = prims.SimTimer
  current_thread = staticmethod(prims.sim_current_thread)
  currentThread = staticmethod(prims.sim_current_thread)
  get_ident = staticmethod(prims.sim_get_ident)
  enumerate = staticmethod(prims.sim_enumerate)
  active_count = staticmethod(prims.sim_active_count)

  def __getattr__(self, name):
    return getattr(_threading, name)


class _QueueFacade(types.ModuleType):
  def __init__(self):
    types.ModuleType.__init__(self, 'queue')
  Queue = prims.SimQueue
  PriorityQueue = prims.SimPriorityQueue
  LifoQueue = prims.SimLifoQueue
  Full = _queue.Full
  Empty = _queue.Empty

  def __getattr__(self, name):
    return getattr(_queue, name)


class _DatetimeFacade(types.ModuleType):
  def __init__(self):
    types.ModuleType.__init__(self, 'datetime')
  datetime = prims.SimDatetime

  def __getattr__(self, name):
    return getattr(_datetime, name)


class _CollectionsFacade(types.ModuleType):
  def __init__(self):
    types.ModuleType.__init__(self, 'collections')
  deque = prims.SimDeque

  def __getattr__(self, name):
    return getattr(collections, name)


def _replacement_for(obj, modname):
  """identity-based mapping from a stdlib object to its simulated stand-in"""
  if obj is _threading.Thread:
    return prims.SimThread
  if obj is _threading.Event:
    return prims.SimEvent
  if obj is _threading.RLock:
    return prims.SimRLock
  if obj is _threading.Lock:
    return prims.SimLock
  if obj is _threading.Condition:
    return prims.SimCondition
  if obj is _threading.Semaphore:
    return prims.SimSemaphore
  if obj is _threading.BoundedSemaphore:
    return prims.SimBoundedSemaphore
  if obj is _threading.Timer:
    return prims.SimTimer
  if obj is _threading.current_thread or obj is getattr(_threading, 'currentThread', None):
    return prims.sim_current_thread
  if obj is _threading.get_ident:
    return prims.sim_get_ident
  if obj is _threading.enumerate:
    return prims.sim_enumerate
  if obj is _threading.active_count:
    return prims.sim_active_count
  if obj is _queue.Queue:
    return prims.SimQueue
  if obj is _queue.PriorityQueue:
    return prims.SimPriorityQueue
  if obj is _queue.LifoQueue:
    return prims.SimLifoQueue
  if obj is collections.deque:
    return prims.SimDeque if modname.endswith('activeobject') else prims.SimDequeQuiet
  if obj is _datetime.datetime:
    return prims.SimDatetime
  if obj is _time:
    return _time_facade
  if obj is _uuid:
    return _uuid_facade
  if obj is _threading:
    return _ThreadingFacade()
  if obj is _queue:
    return _QueueFacade()
  if obj is _datetime:
    return _DatetimeFacade()
  if obj is collections:
    return _CollectionsFacade()
  if obj is _pprint.pprint:
    return prims.sim_pprint
  if obj is _time.sleep:
    return _time_facade.sleep
  if obj is _time.time:
    return _time_facade.time
  if obj is _uuid.uuid4:
    return _uuid_facade.uuid4
  return None


_REPLACED_BASES = {
  _threading.Event: prims.SimEvent,
  _threading.Thread: prims.SimThread,
  _queue.Queue: prims.SimQueue,
  _queue.PriorityQueue: prims.SimPriorityQueue,
  collections.deque: prims.SimDeque,
}

replaced = []


def install():
  """import miros from REPO and put the simulated objects behind its seams (once per process)"""
  global _installed
  if _installed:
    return mods
  if REPO not in sys.path:
    sys.path.insert(0, REPO)
  for name in MODULES:
    m = importlib.import_module(name)
    f = os.path.realpath(m.__file__)
    if not f.startswith(os.path.realpath(REPO) + os.sep):
      raise kernel.HarnessError('%s imported from %s, not from %s' % (name, f, REPO))
    mods[name.split('.')[-1]] = m
  singleton_cls = mods['singleton'].SingletonDecorator
  for short, m in mods.items():
    g = m.__dict__
    rebuilt = {}
    for k in sorted(g.keys()):
      v = g[k]
      r = _replacement_for(v, m.__name__)
      if r is not None:
        g[k] = r
        replaced.append('%s.%s' % (short, k))
        continue
      # classes defined in miros that subclass a replaced class
      if isinstance(v, type) and v.__module__ == m.__name__:
        for old, new in _REPLACED_BASES.items():
          if old in v.__bases__ and v not in (prims.SimEvent,):
            nb = tuple(new if b is old else b for b in v.__bases__)
            ns = {kk: vv for kk, vv in v.__dict__.items() if kk not in ('__dict__', '__weakref__')}
            nv = type(v.__name__, nb, ns)
            nv.__module__ = v.__module__
            nv.__qualname__ = v.__qualname__
            rebuilt[v] = nv
            g[k] = nv
            replaced.append('%s.%s(rebuilt)' % (short, k))
    if rebuilt:
      for k in sorted(g.keys()):
        v = g[k]
        if isinstance(v, singleton_cls) and v.klass in rebuilt:
          v.klass = rebuilt[v.klass]
          v.instance = None
        elif isinstance(v, _LRU_TYPE) and getattr(v, '__wrapped__', None) in rebuilt:
          # a memoising wrapper (functools.lru_cache / cache) around a class that had to be rebuilt
          import functools
          params = v.cache_parameters() if hasattr(v, 'cache_parameters') else {'maxsize': None}
          g[k] = functools.lru_cache(**params)(rebuilt[v.__wrapped__])
          replaced.append('%s.%s(re-wrapped cache)' % (short, k))
    for k in sorted(g.keys()):
      if isinstance(g[k], _LRU_TYPE):
        _caches.append(g[k])
    # print from miros code is captured (it would interleave nondeterministically)
    g['print'] = prims.sim_print
    if 'pp' in g and callable(g['pp']):
      g['pp'] = prims.sim_pprint
  # pprint module used as pprint.pprint in hsm.pp: pp is replaced above
  _adopt_module_locks()
  _enable_events()
  _snapshot_containers()
  _installed = True
  return mods


_line_codes = []
hot_codes = {}

_REAL_LOCK = type(_threading.Lock())
_REAL_RLOCK = type(_threading.RLock())


def adopt_locks(obj):
  """replace real lock objects held in obj's attributes by simulated ones (objects
  built at import time, before the seams were installed, may own real locks; a
  real lock held across a pre-emption point would block the baton holder for real)"""
  d = getattr(obj, '__dict__', None)
  if not isinstance(d, dict):
    return 0
  n = 0
  for k in sorted(d.keys()):
    v = d[k]
    if type(v) is _REAL_LOCK:
      d[k] = prims.SimLock()
      n += 1
    elif type(v) is _REAL_RLOCK:
      d[k] = prims.SimRLock()
      n += 1
  return n


def _adopt_module_locks():
  for short, m in mods.items():
    g = m.__dict__
    for k in sorted(g.keys()):
      v = g[k]
      if type(v) is _REAL_LOCK:
        g[k] = prims.SimLock()
      elif type(v) is _REAL_RLOCK:
        g[k] = prims.SimRLock()
      elif isinstance(v, type):
        if getattr(v, '__module__', None) == m.__name__:
          for kk in sorted(v.__dict__.keys()):
            vv = v.__dict__[kk]
            if type(vv) is _REAL_LOCK:
              setattr(v, kk, prims.SimLock())
            elif type(vv) is _REAL_RLOCK:
              setattr(v, kk, prims.SimRLock())
            else:
              adopt_locks(vv)
      elif getattr(type(v), '__module__', '').startswith('miros'):
        adopt_locks(v)


def _module_code_objects(m):
  """every code object of a live function defined in the module's file (and the code
  objects nested in them), in a deterministic order"""
  import gc
  src = m.__file__
  seen = {}
  for o in gc.get_objects():
    if isinstance(o, types.FunctionType):
      c = o.__code__
      if c.co_filename == src:
        for cc in kernel.collect_code_objects(c):
          seen[(cc.co_firstlineno, cc.co_qualname, id(cc))] = cc
  out = []
  ids = set()
  for k in sorted(seen.keys()):
    c = seen[k]
    if id(c) not in ids:
      ids.add(id(c))
      out.append(c)
  return out


HOT_FUNCTIONS = {
  'activeobject': ['LockingDeque.append', 'LockingDeque.appendleft', 'LockingDeque.clear',
                   'LockingDeque.get', 'LockingDeque.wait', 'LockingDeque.popleft',
                   'ActiveObject.run_event', 'post_event_thread_runner',
                   'ActiveObject.cancel_event', 'ActiveObject.cancel_events', 'ActiveObject.stop',
                   'ActiveObject.__post_event', 'ActiveObject.subscribe', 'ActiveObject.__start',
                   'start_thread', 'initiate_thread', 'ActiveFabricSource.start',
                   'ActiveFabricSource.stop', 'ActiveFabricSource.is_alive',
                   '_subscribe', 'ActiveFabricSource.publish'],
  'singleton': ['SingletonDecorator.__call__'],
  'event': ['OrderedDictWithParams.append', 'SignalSource.append', 'SignalSource.__getattr__',
            'SignalSource.name_for_signal', 'SignalSource.is_inner_signal',
            'is_number_an_internal_signal', 'Event.__init__'],
  'thread_safe_attributes': ['ThreadSafeAttribute.__get__', 'ThreadSafeAttribute.__set__'],
  'hsm': ['HsmWithQueues.next_rtc', 'HsmWithQueues.post_fifo', 'HsmWithQueues.post_lifo',
          '_append_fifo_to_spy', '_append_lifo_to_spy'],
}


_SYNC_NAMES = frozenset(['put', 'get', 'get_nowait', 'put_nowait', 'append', 'appendleft', 'popleft', 'pop', 'is_set', 'clear', 'set',
                        'acquire', 'release', 'wait', 'join', 'start', 'task_done', 'qsize', 'rotate', 'instance'])


def _enable_events():
  line_codes = []
  op_codes = []
  for short in ['singleton', 'event', 'thread_safe_attributes', 'hsm', 'activeobject']:
    m = mods[short]
    codes = _module_code_objects(m)
    line_codes.extend(codes)
    wanted = HOT_FUNCTIONS.get(short, [])
    found = set()
    for c in codes:
      qn = c.co_qualname
      for w in wanted:
        if qn == w or qn.endswith('.' + w) or qn.endswith('.<locals>.' + w.split('.')[-1]) and '.' not in w:
          op_codes.append(c)
          hot_codes.setdefault(short + ':' + w, []).append(c)
          found.add(w)
    missing = [w for w in wanted if w not in found]
    for w in missing:
      anchors_missing.append(short + ':' + w)
    if missing:
      # a hot function was renamed or moved: rather than silently losing bytecode granularity there, every function of
      # this module that touches a synchronisation object or a queue becomes pre-emptible at bytecode level
      have = set(id(c) for c in op_codes)
      for c in codes:
        if id(c) not in have and _SYNC_NAMES.intersection(c.co_names):
          op_codes.append(c)
          hot_codes.setdefault(short + ':(fallback)', []).append(c)
  _line_codes[:] = line_codes
  kernel.install_monitoring(line_codes, op_codes)
  kernel.install_coverage(line_codes)


def enable_events_for(code_objects, opcode=False):
  """client/generated code that must be pre-emptible too"""
  codes = []
  for c in code_objects:
    codes.extend(kernel.collect_code_objects(c))
  kernel.install_monitoring(codes, codes if opcode else ())


def fingerprint():
  h = hashlib.sha256()
  d = os.path.join(REPO, 'miros')
  for fn in sorted(os.listdir(d)):
    if fn.endswith('.py'):
      with open(os.path.join(d, fn), 'rb') as fh:
        h.update(fn.encode())
        h.update(fh.read())
  return h.hexdigest()[:16]


_defaults = {}
_reg_attrs = {}
_caches = []          # functools caches declared at module level in miros
import functools as _functools
_LRU_TYPE = type(_functools.lru_cache(maxsize=None)(lambda: None))
_containers = []      # (container object, shallow copy of its contents at install time)
_PLAIN = (list, dict, set, collections.deque, collections.OrderedDict)


def _snapshot_containers():
  """every plain mutable container that lives for the whole process inside miros - module globals, class
  attributes, default arguments of functions and methods - with its contents at install time.  miros today has
  none that matters between runs; a change that introduces one (a class-level cache, a mutable default argument)
  would otherwise carry state from one simulated run into the next and make a run depend on which runs the worker
  process executed before it (replay files would stop reproducing)."""
  seen = set()

  def take(v):
    if type(v) in _PLAIN and id(v) not in seen:
      seen.add(id(v))
      _containers.append((v, copy.copy(v)))

  def take_function(f):
    for d in (getattr(f, '__defaults__', None) or ()):
      take(d)
    for d in (getattr(f, '__kwdefaults__', None) or {}).values():
      take(d)

  for short in sorted(mods):
    m = mods[short]
    for k in sorted(m.__dict__.keys()):
      v = m.__dict__[k]
      if k.startswith('__'):
        continue
      take(v)
      if isinstance(v, types.FunctionType) and v.__module__ == m.__name__:
        take_function(v)
      elif isinstance(v, type) and v.__module__ == m.__name__:
        for kk in sorted(v.__dict__.keys()):
          vv = v.__dict__[kk]
          if kk.startswith('__') and kk != '__init__':
            continue
          take(vv)
          vv = getattr(vv, '__func__', vv)
          vv = getattr(vv, '__wrapped__', vv) if not isinstance(vv, types.FunctionType) else vv
          if isinstance(vv, types.FunctionType):
            take_function(vv)
            w = getattr(vv, '__wrapped__', None)
            if isinstance(w, types.FunctionType):
              take_function(w)


def _restore_containers():
  for obj, snap in _containers:
    try:
      if obj == snap:
        continue
      if isinstance(obj, list):
        obj[:] = snap
      elif isinstance(obj, collections.deque):
        obj.clear()
        obj.extend(snap)
      else:
        obj.clear()
        obj.update(snap)
    except Exception:
      pass


def reset_globals():
  """in-place reset of the process-global miros state (start of every run)"""
  _restore_containers()
  prims.reset_process_sync_objects()
  for c in _caches:      # memoising wrappers declared in miros keep no result from one run to the next
    try:
      c.cache_clear()
    except Exception:
      pass
  ev = mods['event']
  hsm = mods['hsm']
  ao = mods['activeobject']
  sig = ev.signals
  rs = ev.return_status
  # the registries are re-initialised in place; instance attributes they did not have when the seams were installed
  # (say a lock created lazily on first use) go too, so that every run meets the registry as a fresh process does
  for reg, key in ((sig, 'sig_attrs'), (rs, 'rs_attrs')):
    d = getattr(reg, '__dict__', None)
    if isinstance(d, dict):
      if key not in _reg_attrs:
        _reg_attrs[key] = set(d.keys())
      for k in [k for k in d if k not in _reg_attrs[key]]:
        del d[k]
  collections.OrderedDict.clear(sig)
  sig.__init__()
  collections.OrderedDict.clear(rs)
  rs.__init__()
  # the singleton wrappers keep their identity, the instances are recreated in the run
  for m in (ev, ao):
    for k in sorted(m.__dict__.keys()):
      v = m.__dict__[k]
      if isinstance(v, mods['singleton'].SingletonDecorator):
        if m is ev and k in ('Signal', 'ReturnStatus'):
          continue  # signals / return_status objects are shared by identity across modules
        v.instance = None
  if not _defaults:
    _defaults['QUEUE_SIZE'] = hsm.HsmWithQueues.QUEUE_SIZE
    _defaults['SPY'] = hsm.HsmEventProcessor.SPY_RING_BUFFER_SIZE
    _defaults['TRC'] = hsm.HsmEventProcessor.TRC_RING_BUFFER_SIZE
    _defaults['RTC'] = hsm.HsmEventProcessor.RTC_RING_BUFFER_SIZE
  hsm.HsmWithQueues.QUEUE_SIZE = _defaults['QUEUE_SIZE']
  for cls in (ao.ActiveObject, ao.Factory):
    if 'QUEUE_SIZE' in cls.__dict__:
      delattr(cls, 'QUEUE_SIZE')
  hsm.HsmEventProcessor.SPY_RING_BUFFER_SIZE = _defaults['SPY']
  hsm.HsmEventProcessor.TRC_RING_BUFFER_SIZE = _defaults['TRC']
  hsm.HsmEventProcessor.RTC_RING_BUFFER_SIZE = _defaults['RTC']


def set_queue_size(n):
  mods['hsm'].HsmWithQueues.QUEUE_SIZE = n


def set_ring_sizes(spy=None, trc=None, rtc=None):
  H = mods['hsm'].HsmEventProcessor
  if spy is not None:
    H.SPY_RING_BUFFER_SIZE = spy
  if trc is not None:
    H.TRC_RING_BUFFER_SIZE = trc
  if rtc is not None:
    H.RTC_RING_BUFFER_SIZE = rtc
