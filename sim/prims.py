"""Simulated replacements of the stdlib objects miros uses.  Each looks up the Sim of
the calling simulated thread; outside a simulated thread (e.g. while the controller
builds objects) the non-blocking operations work and never yield."""
import collections
import datetime as _datetime
import heapq
import queue as _queue
import threading as _threading
import time as _time
import types
import uuid as _uuid

from . import kernel
from .kernel import current_ctl, current_sim, HarnessError, DONE

Full = _queue.Full
Empty = _queue.Empty

K_SYNC = 3  # digest kind for stub operations


def _sim():
  s = current_sim()
  return s


def _y(code, obj=0):
  c = current_ctl()
  if c is not None:
    c.sim.yield_point(K_SYNC, code, obj)


def _label(kind):
  s = current_sim()
  if s is None:
    return kind + '#?'
  return s.label(kind)


def _rec(kind, label, op, detail=None):
  s = current_sim()
  if s is not None:
    return s.record(kind, label, op, detail)
  return None


# ------------------------------------------------------------------ threads
_ROLE_BY_QUALNAME = (
  ('ActiveObject.run_event', 'consumer'),
  ('post_event_thread_runner', 'timer'),
  ('ActiveFabricSource.thread_runner_fifo', 'fabric.fifo'),
  ('ActiveFabricSource.thread_runner_lifo', 'fabric.lifo'),
  ('InstrumenationWriterClass.start.<locals>.thread_runner', 'writer'),
)


def role_of(target, args=()):
  qn = getattr(target, '__qualname__', None) or getattr(getattr(target, '__func__', None), '__qualname__', '') or ''
  for pat, role in _ROLE_BY_QUALNAME:
    if qn.endswith(pat):
      return role
  # the function was renamed or moved: tell the role from what the thread is given to work on
  # (internal names may change in a refactoring; what the thread serves does not)
  try:
    owner = getattr(target, '__self__', None)
    if owner is not None:
      if hasattr(owner, 'fifo_fabric_queue') and hasattr(owner, 'lifo_fabric_queue'):
        if any(a is owner.lifo_fabric_queue for a in args):
          return 'fabric.lifo'
        if any(a is owner.fifo_fabric_queue for a in args):
          return 'fabric.fifo'
      if hasattr(owner, 'post_fifo') and hasattr(owner, 'next_rtc') and hasattr(owner, 'locking_deque'):
        return 'consumer'
    if args and hasattr(args[0], '_queue') and hasattr(args[0], '_print') and owner is None:
      return 'writer'
    for cell in (getattr(target, '__closure__', None) or ()):
      try:
        v = cell.cell_contents
      except ValueError:
        continue
      if hasattr(v, 'post_fifo') and hasattr(v, 'next_rtc') and hasattr(v, 'posted_events_queue'):
        return 'timer'      # a closure over an active object that runs in its own thread: a timed source
  except Exception:
    pass
  return 'thread'


class SimThread(object):
  """stand-in for threading.Thread as miros uses it"""

  def __init__(self, group=None, target=None, name=None, args=(), kwargs=None, daemon=None):
    self._target = target
    self._args = tuple(args)
    self._kwargs = dict(kwargs or {})
    self.name = name
    self.daemon = bool(daemon)
    self._ctl = None
    self._sim = current_sim()
    self.role = role_of(target, self._args) if target is not None else 'thread'
    self.ident = None

  def run(self):
    if self._target is not None:
      self._target(*self._args, **self._kwargs)

  def start(self):
    if self._ctl is not None:
      raise RuntimeError('threads can only be started once')
    sim = current_sim() or self._sim
    if sim is None:
      raise HarnessError('SimThread.start outside a simulation')
    _y(10)
    self._ctl = sim.spawn(self.run, role=self.role, user=self)
    self.ident = self._ctl.idx + 1000
    sim.record('thread', self._ctl.name, 'start', None)

  def is_alive(self):
    _y(11)
    return self._ctl is not None and self._ctl.state != DONE

  def join(self, timeout=None):
    if self._ctl is None:
      raise RuntimeError('cannot join thread before it is started')
    me = current_ctl()
    if me is self._ctl:
      raise RuntimeError('cannot join current thread')
    _y(12)
    ctl = self._ctl
    if ctl.state != DONE:
      if me is None:
        raise HarnessError('join of a live thread outside a simulated thread')
      me.sim.block(lambda: ctl.state == DONE,
                   None if timeout is None else timeout * 1e6, 'join:' + ctl.name)

  def isDaemon(self):
    return self.daemon

  def setDaemon(self, d):
    self.daemon = d


class _ForeignThread(object):
  """what current_thread() answers for a simulated thread that was not made through threading.Thread
  (the clients and the main thread of a world)"""
  daemon = False

  def __init__(self, ctl):
    self._ctl = ctl
    self.name = ctl.name if ctl is not None else 'MainThread'
    self.ident = (ctl.idx + 1000) if ctl is not None else 1

  def is_alive(self):
    return self._ctl is None or self._ctl.state != DONE

  def join(self, timeout=None):
    raise RuntimeError('cannot join current thread')


def sim_current_thread():
  """threading.current_thread() as seen by miros: the Thread object miros created for the running thread"""
  c = current_ctl()
  if c is None:
    return _threading.current_thread()
  u = c.user
  if isinstance(u, SimThread):
    return u
  table = c.sim.__dict__.setdefault('_foreign_threads', {})
  ft = table.get(c.idx)
  if ft is None:
    ft = table[c.idx] = _ForeignThread(c)
  return ft


def sim_get_ident():
  c = current_ctl()
  if c is None:
    return _threading.get_ident()
  return c.idx + 1000


def sim_enumerate():
  s = current_sim()
  if s is None:
    return _threading.enumerate()
  out = []
  for t in s.threads:
    if t.state != DONE:
      out.append(t.user if isinstance(t.user, SimThread) else _ForeignThread(t))
  return out


def sim_active_count():
  return len(sim_enumerate())


# ------------------------------------------------------------------ Event, locks
class SimEvent(object):

  def __init__(self):
    self._flag = False
    self._label = _label('event')
    _y(19)      # constructing an object takes time: a pre-emption point (matters when construction itself is raced)

  def is_set(self):
    _y(20)
    return self._flag

  isSet = is_set

  def set(self):
    _y(21)
    self._flag = True
    _rec('event', self._label, 'set')

  def clear(self):
    _y(22)
    self._flag = False
    _rec('event', self._label, 'clear')

  def wait(self, timeout=None):
    _y(23)
    if not self._flag:
      c = current_ctl()
      if c is None:
        raise HarnessError('Event.wait would block outside a simulated thread')
      c.sim.block(lambda: self._flag, None if timeout is None else timeout * 1e6,
                  'wait:' + self._label)
    return self._flag


# synchronisation objects created while no simulation is current live for the whole process (module-level locks of
# miros adopted at install time, locks of objects built at import).  A run that is torn down while one of its threads
# holds such a lock would leave it owned for ever: they are released at the start of every run.
_process_sync_objects = []


def reset_process_sync_objects():
  for o in _process_sync_objects:
    if isinstance(o, SimRLock):
      o._owner, o._count = None, 0
    elif isinstance(o, SimLock):
      o._locked = False


class SimRLock(object):

  def __init__(self):
    self._owner = None
    self._count = 0
    self._label = _label('rlock')
    if current_sim() is None:
      _process_sync_objects.append(self)

  def acquire(self, blocking=True, timeout=-1):
    _y(30)
    me = current_ctl()
    key = me if me is not None else 'ctrl'
    if self._owner is key:
      self._count += 1
      return True
    if self._owner is not None:
      if not blocking:
        return False
      if me is None:
        raise HarnessError('RLock.acquire would block outside a simulated thread')
      while self._owner is not None:
        ok = me.sim.block(lambda: self._owner is None,
                          None if (timeout is None or timeout < 0) else timeout * 1e6,
                          'lock:' + self._label)
        if not ok:
          return False
    self._owner = key
    self._count = 1
    _rec('rlock', self._label, 'acquire')
    return True

  def release(self):
    # CPython: RuntimeError("cannot release un-acquired lock")
    me = current_ctl()
    key = me if me is not None else 'ctrl'
    if self._owner is not key:
      raise RuntimeError('cannot release un-acquired lock')
    self._count -= 1
    if self._count == 0:
      self._owner = None
      _rec('rlock', self._label, 'release')
    _y(31)

  def __enter__(self):
    self.acquire()
    return self

  def __exit__(self, *a):
    self.release()

  def _is_owned(self):
    me = current_ctl()
    return self._owner is (me if me is not None else 'ctrl')

  def owner_name(self):
    o = self._owner
    if o is None:
      return None
    return o if isinstance(o, str) else o.name


class SimLock(object):

  def __init__(self):
    self._locked = False
    self._label = _label('lock')
    if current_sim() is None:
      _process_sync_objects.append(self)

  def acquire(self, blocking=True, timeout=-1):
    _y(32)
    if self._locked:
      if not blocking:
        return False
      me = current_ctl()
      if me is None:
        raise HarnessError('Lock.acquire would block outside a simulated thread')
      while self._locked:
        ok = me.sim.block(lambda: not self._locked,
                          None if (timeout is None or timeout < 0) else timeout * 1e6,
                          'lock:' + self._label)
        if not ok:
          return False
    self._locked = True
    return True

  def release(self):
    if not self._locked:
      raise RuntimeError('release unlocked lock')
    self._locked = False
    _y(33)

  def locked(self):
    return self._locked

  def __enter__(self):
    self.acquire()
    return self

  def __exit__(self, *a):
    self.release()


class SimCondition(object):
  """threading.Condition on the simulated locks (not used by miros today; a refactoring that starts to use one must
  not make the baton holder block for real)"""

  def __init__(self, lock=None):
    self._lock = lock if lock is not None else SimRLock()
    self._waiters = []
    self._label = _label('cond')
    self.acquire = self._lock.acquire
    self.release = self._lock.release

  def __enter__(self):
    return self._lock.__enter__()

  def __exit__(self, *a):
    return self._lock.__exit__(*a)

  def wait(self, timeout=None):
    me = current_ctl()
    if me is None:
      raise HarnessError('Condition.wait outside a simulated thread')
    lock = self._lock
    if isinstance(lock, SimRLock):
      if lock._owner is not me:
        raise RuntimeError('cannot wait on un-acquired lock')
      saved = lock._count
      lock._count, lock._owner = 0, None
    else:
      if not lock._locked:
        raise RuntimeError('cannot wait on un-acquired lock')
      saved = None
      lock._locked = False
    tok = {'n': False}
    self._waiters.append(tok)
    _y(35)
    ok = True
    if not tok['n']:
      ok = me.sim.block(lambda: tok['n'], None if timeout is None else timeout * 1e6, 'cond:' + self._label)
    if not tok['n'] and tok in self._waiters:
      self._waiters.remove(tok)
    # take the lock back
    if isinstance(lock, SimRLock):
      while lock._owner is not None:
        me.sim.block(lambda: lock._owner is None, None, 'lock:' + lock._label)
      lock._owner, lock._count = me, saved
    else:
      while lock._locked:
        me.sim.block(lambda: not lock._locked, None, 'lock:' + lock._label)
      lock._locked = True
    return bool(tok['n']) if timeout is not None else True

  def wait_for(self, predicate, timeout=None):
    end = None
    r = predicate()
    while not r:
      if timeout is not None:
        s = current_sim()
        if end is None:
          end = s.now() + timeout
        left = end - s.now()
        if left <= 0:
          break
        self.wait(left)
      else:
        self.wait()
      r = predicate()
    return r

  def notify(self, n=1):
    _y(36)
    for tok in self._waiters[:n]:
      tok['n'] = True
    del self._waiters[:n]

  def notify_all(self):
    self.notify(len(self._waiters))

  notifyAll = notify_all


class SimSemaphore(object):

  def __init__(self, value=1):
    if value < 0:
      raise ValueError('semaphore initial value must be >= 0')
    self._value = value
    self._label = _label('sem')

  def acquire(self, blocking=True, timeout=None):
    _y(37)
    if self._value <= 0:
      if not blocking:
        return False
      me = current_ctl()
      if me is None:
        raise HarnessError('Semaphore.acquire would block outside a simulated thread')
      while self._value <= 0:
        if not me.sim.block(lambda: self._value > 0, None if timeout is None else timeout * 1e6, 'sem:' + self._label):
          return False
    self._value -= 1
    return True

  def release(self, n=1):
    self._value += n
    _y(38)

  def __enter__(self):
    self.acquire()
    return self

  def __exit__(self, *a):
    self.release()


class SimBoundedSemaphore(SimSemaphore):

  def __init__(self, value=1):
    SimSemaphore.__init__(self, value)
    self._initial = value

  def release(self, n=1):
    if self._value + n > self._initial:
      raise ValueError('Semaphore released too many times')
    SimSemaphore.release(self, n)


class SimTimer(SimThread):
  """threading.Timer: calls a function after an interval of virtual time unless cancelled first"""

  def __init__(self, interval, function, args=None, kwargs=None):
    SimThread.__init__(self)
    self.interval = interval
    self.function = function
    self.args = args if args is not None else []
    self.kwargs = kwargs if kwargs is not None else {}
    self.finished = SimEvent()
    self.role = 'timer'

  def cancel(self):
    self.finished.set()

  def run(self):
    self.finished.wait(self.interval)
    if not self.finished.is_set():
      self.function(*self.args, **self.kwargs)
    self.finished.set()


# ------------------------------------------------------------------ queues
class SimQueue(object):
  kind = 'queue'

  def __init__(self, maxsize=0):
    self.maxsize = maxsize
    self._init()
    self.unfinished_tasks = 0
    self._label = _label(self.kind)

  # what the real class exposes besides its methods (code that peeks at the backlog uses them)
  @property
  def queue(self):
    return self._items

  @property
  def mutex(self):
    m = self.__dict__.get('_mutex')
    if m is None:
      m = self.__dict__['_mutex'] = SimLock()
    return m

  # storage discipline (overridden by the priority queue)
  def _init(self):
    self._items = collections.deque()

  def _put(self, item):
    self._items.append(item)

  def _get(self):
    return self._items.popleft()

  def _qsize(self):
    return len(self._items)

  # API
  def qsize(self):
    _y(40)
    return self._qsize()

  def empty(self):
    _y(41)
    return self._qsize() == 0

  def full(self):
    _y(42)
    return 0 < self.maxsize <= self._qsize()

  def put(self, item, block=True, timeout=None):
    _y(43)
    if self.maxsize > 0 and self._qsize() >= self.maxsize:
      if not block:
        raise Full
      me = current_ctl()
      if me is None:
        raise HarnessError('Queue.put would block outside a simulated thread')
      if timeout is not None and timeout < 0:
        raise ValueError("'timeout' must be a non-negative number")
      while self._qsize() >= self.maxsize:
        ok = me.sim.block(lambda: self._qsize() < self.maxsize,
                          None if timeout is None else timeout * 1e6, 'put:' + self._label)
        if not ok:
          raise Full
    c = current_ctl()
    if c is not None:
      # the real queue holds its mutex here: item comparisons (heap order) cannot
      # interleave with other operations on the queue
      c.atomic += 1
      try:
        self._put(item)
      finally:
        c.atomic -= 1
    else:
      self._put(item)
    self.unfinished_tasks += 1
    _rec(self.kind, self._label, 'put', self._describe(item))

  def put_nowait(self, item):
    return self.put(item, block=False)

  def get(self, block=True, timeout=None):
    _y(44)
    if self._qsize() == 0:
      if not block:
        raise Empty
      me = current_ctl()
      if me is None:
        raise HarnessError('Queue.get would block outside a simulated thread')
      if timeout is not None and timeout < 0:
        raise ValueError("'timeout' must be a non-negative number")
      while self._qsize() == 0:
        ok = me.sim.block(lambda: self._qsize() > 0,
                          None if timeout is None else timeout * 1e6, 'get:' + self._label)
        if not ok:
          raise Empty
    self._before_get()
    c = current_ctl()
    if c is not None:
      c.atomic += 1
      try:
        item = self._get()
      finally:
        c.atomic -= 1
    else:
      item = self._get()
    _rec(self.kind, self._label, 'get', self._describe(item))
    return item

  def get_nowait(self):
    return self.get(block=False)

  def task_done(self):
    _y(45)
    unfinished = self.unfinished_tasks - 1
    if unfinished < 0:
      raise ValueError('task_done() called too many times')
    self.unfinished_tasks = unfinished

  def join(self):
    _y(46)
    if self.unfinished_tasks:
      me = current_ctl()
      if me is None:
        raise HarnessError('Queue.join would block outside a simulated thread')
      while self.unfinished_tasks:
        me.sim.block(lambda: self.unfinished_tasks == 0, None, 'qjoin:' + self._label)

  def _before_get(self):
    pass

  def _describe(self, item):
    return None


class SimPriorityQueue(SimQueue):
  kind = 'pqueue'

  def _init(self):
    self._items = []
    self._stamp = {}       # id(item) -> put sequence (oracle only, never used for ordering)
    self._puts = 0
    self.get_log = []      # (returned (prio, stamp), [(prio, stamp) of everything queued at that instant])

  def _put(self, item):
    self._puts += 1
    self._stamp[id(item)] = self._puts
    heapq.heappush(self._items, item)

  def _get(self):
    item = heapq.heappop(self._items)
    return item

  def _qsize(self):
    return len(self._items)

  def _before_get(self):
    snap = [(getattr(i, 'priority', None), self._stamp.get(id(i))) for i in self._items]
    self._snap = snap

  def get(self, block=True, timeout=None):
    item = SimQueue.get(self, block, timeout)
    st = self._stamp.pop(id(item), None)
    self.get_log.append(((getattr(item, 'priority', None), st), self._snap))
    s = current_sim()
    if s is not None:
      hook = getattr(s, 'on_pq_get', None)
      if hook is not None:
        hook(self, item, st, self._snap)
    return item

  def _describe(self, item):
    return (getattr(item, 'priority', None), self._stamp.get(id(item)), getattr(getattr(item, 'event', None), 'payload', None))


class SimLifoQueue(SimQueue):
  kind = 'lqueue'

  def _init(self):
    self._items = []

  def _put(self, item):
    self._items.append(item)

  def _get(self):
    return self._items.pop()


# ------------------------------------------------------------------ deque
class SimDeque(collections.deque):
  """a real deque that yields before, and records, every operation miros performs"""

  def __init__(self, *a, **k):
    collections.deque.__init__(self, *a, **k)
    self._label = _label('deque')
    self._watch = False   # set by a world to get records for this deque

  _preempt = True

  def _r(self, op, detail=None):
    if self._watch:
      _rec('deque', self._label, op, detail)

  def append(self, x):
    if self._preempt:
      _y(50)
    collections.deque.append(self, x)
    self._r('append', x)

  def appendleft(self, x):
    if self._preempt:
      _y(51)
    collections.deque.appendleft(self, x)
    self._r('appendleft', x)

  def pop(self):
    if self._preempt:
      _y(52)
    x = collections.deque.pop(self)
    self._r('pop', x)
    return x

  def popleft(self):
    if self._preempt:
      _y(53)
    x = collections.deque.popleft(self)
    self._r('popleft', x)
    return x

  def clear(self):
    if self._preempt:
      _y(54)
    collections.deque.clear(self)
    self._r('clear')

  def rotate(self, n=1):
    if self._preempt:
      _y(55)
    collections.deque.rotate(self, n)
    self._r('rotate', n)

  def extend(self, it):
    if self._preempt:
      _y(56)
    it = list(it)
    collections.deque.extend(self, it)
    self._r('extend', len(it))

  def __len__(self):
    if self._preempt:
      _y(57)
    return collections.deque.__len__(self)

  def __getitem__(self, i):
    if self._preempt:
      _y(58)
    return collections.deque.__getitem__(self, i)

  def real_len(self):
    return collections.deque.__len__(self)

  def snapshot(self):
    return list(collections.deque.__iter__(self))

  def copy(self):
    d = SimDeque(collections.deque.__iter__(self), self.maxlen)
    return d

  __copy__ = copy


class SimDequeQuiet(SimDeque):
  """for the instrumentation buffers of miros.hsm: recorded when watched, but not a
  pre-emption point unless a world switches that on for one instance"""
  _preempt = False


# ------------------------------------------------------------------ time, datetime, uuid
EPOCH = 1_700_000_000.0  # simulated wall clock at virtual time 0


class SimTimeModule(types.ModuleType):
  """facade for the `time` module: virtual sleep/time/monotonic, the rest passes through"""

  def __init__(self):
    types.ModuleType.__init__(self, 'time')

  def sleep(self, seconds):
    c = current_ctl()
    if c is None:
      raise HarnessError('time.sleep outside a simulated thread')
    c.sim.sleep(seconds)

  def time(self):
    # the wall clock: virtual time plus the steps an operator or NTP made to it (sim.wall_steps:
    # [(virtual instant in us, step in us)]); sleep() and monotonic() never see those steps
    s = current_sim()
    if s is None:
      return EPOCH
    off = 0
    steps = getattr(s, 'wall_steps', None)
    if steps:
      now = s.now_us
      for at_us, d_us in steps:
        if at_us <= now:
          off += d_us
      if off and not getattr(s, '_wall_step_seen', False):
        s._wall_step_seen = True
        s.fault('wall_clock_step_observed')
    return EPOCH + s.now() + off / 1e6

  def monotonic(self):
    s = current_sim()
    return s.now() if s is not None else 0.0

  perf_counter = monotonic

  def __getattr__(self, name):
    return getattr(_time, name)


class ClockBehaviour(object):
  """what datetime.now() returns, as a function of virtual time and call index.

  fine     strictly increasing by at least 1 us per call
  coarse   virtual time quantised to q microseconds (consecutive calls share a stamp)
  frozen   one constant
  jump     fine, plus a backward or forward step at drawn call indices"""

  def __init__(self, kind='fine', q_us=1000, jumps=None):
    self.kind = kind
    self.q_us = q_us
    self.jumps = dict(jumps or {})
    self.calls = 0
    self.offset_us = 0
    self.last_us = None
    self.repeats = 0

  def read(self, sim):
    self.calls += 1
    base = sim.now_us if sim is not None else 0
    if self.kind == 'frozen':
      t = 0
    elif self.kind == 'coarse':
      t = ((base + self.calls * 3) // self.q_us) * self.q_us
    else:
      if self.kind == 'jump' and self.calls in self.jumps:
        self.offset_us += self.jumps[self.calls]
        if sim is not None:
          sim.fault('clock_jump')
      t = base + self.calls + self.offset_us
    if self.last_us is not None and t == self.last_us:
      self.repeats += 1
      if sim is not None:
        sim.fault('clock_repeat')
    self.last_us = t
    return _datetime.datetime.fromtimestamp(EPOCH, _datetime.timezone.utc).replace(tzinfo=None) \
        + _datetime.timedelta(microseconds=t)

  def describe(self):
    return {'kind': self.kind, 'q_us': self.q_us, 'jumps': {str(k): v for k, v in self.jumps.items()}}


class SimDatetime(_datetime.datetime):
  """stands in for datetime.datetime inside miros.hsm: now() reads the simulated clock"""

  @classmethod
  def now(cls, tz=None):
    s = current_sim()
    beh = getattr(s, 'clock', None) if s is not None else None
    if beh is None:
      beh = _default_clock
    return beh.read(s)

  utcnow = now


_default_clock = ClockBehaviour('fine')


class SimUUIDModule(types.ModuleType):

  def __init__(self):
    types.ModuleType.__init__(self, 'uuid')

  def uuid4(self):
    s = current_sim()
    if s is None:
      return _uuid.UUID(int=0, version=4)
    return _uuid.UUID(int=s.rng_misc.getrandbits(128), version=4)

  def uuid1(self, *a, **k):
    return self.uuid4()

  def __getattr__(self, name):
    return getattr(_uuid, name)


def sim_print(*args, **kwargs):
  s = current_sim()
  if s is not None and len(s.printed) < 2000:
    s.printed.append(' '.join(str(a) for a in args)[:300])


def _others_can_run(s, me):
  now = s.now_us
  for t in s.threads:
    if t is me:
      continue
    if t.state == kernel.RUNNABLE:
      return True
    if t.state == kernel.BLOCKED:
      if t.desc == 'stdout':
        continue
      if t.cond() or (t.wake_at is not None and t.wake_at <= now):
        return True
    elif t.state == kernel.SLEEPING and t.wake_at <= now:
      return True
  return False


def sim_pprint(obj, *a, **k):
  # pprint walks a container item by item in Python code: it can be pre-empted between two items (and a container
  # that another thread changes meanwhile makes the iterator raise, as it does under the real pprint)
  if isinstance(obj, (list, tuple, set, frozenset, dict, collections.deque)):
    parts = []
    s = current_sim()
    slow = getattr(s, 'slow_stdout', 0) if s is not None else 0
    for x in obj:
      _y(60)
      if slow and current_ctl() is not None:
        # injected fault: the stream is slow, the writer stays in write() while the other threads make `slow` more
        # steps or until none of them can run at this instant; no virtual time passes
        target, slow, me = s.steps + slow, 0, current_ctl()
        s.fault('slow_stdout')
        s.block(lambda: s.steps >= target or not _others_can_run(s, me), desc='stdout')
      if len(parts) < 20:
        parts.append(repr(x)[:60])
    sim_print('[' + ', '.join(parts) + ']')
  else:
    sim_print(repr(obj)[:300])
