"""Self-tests of the machinery: determinism (same seed twice in one process, again in a
fresh interpreter under another PYTHONHASHSEED, across worker processes), stub fidelity
against the real stdlib classes, and that instruction events fire on the first run."""
import glob
import json
import os
import subprocess
import sys

from . import runner


def available_checks():
  here = os.path.join(runner.VERIF, 'checks')
  out = []
  for p in sorted(glob.glob(os.path.join(here, 'c[0-9][0-9].py'))):
    out.append(os.path.basename(p)[:-3].upper())
  return out


def digests(pid, n, tier='quick', base=777):
  check = runner._load_check(pid)
  from worlds import common as _wc
  _wc.TIER = tier
  out = []
  for stratum in check.PLAN[tier]['strata']:
    for i in range(n):
      seed = runner.run_seed(base, pid, stratum, i)
      sc = check.generate(seed, stratum, tier)
      r = runner.execute_one(check, sc, {'mode': 'seeded', 'seed': seed})
      out.append([stratum, i, r.outcome, r.digest, r.steps, r.switches,
                  sorted(repr(v.key()) for v in r.violations)])
      if r.outcome == 'harness_error':
        out[-1].append(r.reason[-400:])
  return out


def stub_fidelity():
  """sequential scripts run against the real classes and the stubs"""
  import queue
  import threading
  from . import prims
  problems = []

  def script_q(Q):
    log = []
    q = Q(maxsize=2)
    log.append(q.empty())
    q.put(1); q.put(2)
    log.append((q.full(), q.qsize()))
    try:
      q.put_nowait(3)
    except queue.Full:
      log.append('Full')
    log.append(q.get())
    q.task_done()
    log.append(q.get_nowait())
    q.task_done()
    try:
      q.get_nowait()
    except queue.Empty:
      log.append('Empty')
    try:
      q.task_done()
    except ValueError:
      log.append('ValueError')
    try:
      q.get(True, 0.001) if Q is queue.Queue else log.append('skip-timeout')
    except queue.Empty:
      log.append('skip-timeout')
    return log

  if script_q(queue.Queue) != script_q(prims.SimQueue):
    problems.append('Queue scripts differ')

  class Item(object):
    def __init__(self, p, n):
      self.priority, self.n = p, n
    def __lt__(self, o):
      return self.priority < o.priority

  def script_pq(Q):
    q = Q()
    for i, p in enumerate([5, 1, 5, 3, 5, 1, 9, 5, 5, 2]):
      q.put(Item(p, i))
    out = []
    while not q.empty():
      it = q.get()
      out.append((it.priority, it.n))
    return out

  if script_pq(queue.PriorityQueue) != script_pq(prims.SimPriorityQueue):
    problems.append('PriorityQueue heap order differs')

  def script_rlock(L):
    log = []
    l = L()
    log.append(l.acquire())
    log.append(l.acquire())
    l.release(); l.release()
    try:
      l.release()
    except RuntimeError:
      log.append('RuntimeError')
    return log

  if script_rlock(threading.RLock) != script_rlock(prims.SimRLock):
    problems.append('RLock scripts differ')

  def script_ev(E):
    e = E()
    log = [e.is_set()]
    e.set(); log.append(e.is_set()); log.append(e.wait())
    e.clear(); log.append(e.is_set())
    return log

  if script_ev(threading.Event) != script_ev(prims.SimEvent):
    problems.append('Event scripts differ')

  def script_t(T):
    t = T(target=lambda: None)
    try:
      t.join()
    except RuntimeError:
      return ['RuntimeError']
    return ['joined']

  if script_t(threading.Thread) != script_t(prims.SimThread):
    problems.append('Thread.join before start differs')
  return problems


def main(a):
  pids = available_checks()
  if a.digests:
    want = a.digests.split(',')
    n = a.n or 5
    print(json.dumps({p: digests(p, n) for p in want}))
    return 0
  n = a.n or (2 if a.quick else 12)
  bad = 0
  probs = stub_fidelity()
  for p in probs:
    print('STUB-FIDELITY: ' + p)
    bad += 1
  # same seeds twice in this process
  first = {p: digests(p, n) for p in pids}
  second = {p: digests(p, n) for p in pids}
  for p in pids:
    if first[p] != second[p]:
      bad += 1
      print('NON-DETERMINISTIC (same process): %s' % p)
      for x, y in zip(first[p], second[p]):
        if x != y:
          print('   ', x, '\n   ', y)
          break
    for row in first[p]:
      if row[2] == 'harness_error':
        bad += 1
        print('HARNESS-ERROR in %s: %s' % (p, row))
        break
  # fresh interpreter, another hash seed
  env = dict(os.environ)
  env['PYTHONHASHSEED'] = '12345'
  env['PYTHONPATH'] = runner.VERIF
  env['PYTHONDONTWRITEBYTECODE'] = '1'
  groups = [pids[i::4] for i in range(4)] if not a.quick else [pids]
  procs = []
  for g in groups:
    if not g:
      continue
    procs.append((g, subprocess.Popen([sys.executable, '-m', 'sim.cli', 'selftest', '--digests', ','.join(g),
                                       '--n', str(n)], env=env, cwd=runner.VERIF,
                                      stdout=subprocess.PIPE, stderr=subprocess.PIPE, text=True)))
  for g, pr in procs:
    try:
      out, err = pr.communicate(timeout=900)
    except subprocess.TimeoutExpired:
      pr.kill()
      print('selftest: fresh interpreter timed out for %s' % g)
      bad += 1
      continue
    if pr.returncode != 0:
      print('selftest: fresh interpreter failed for %s:\n%s' % (g, err[-2000:]))
      bad += 1
      continue
    other = json.loads(out.strip().splitlines()[-1])
    for p in g:
      if other[p] != json.loads(json.dumps(first[p])):
        bad += 1
        print('NON-DETERMINISTIC (fresh interpreter, other PYTHONHASHSEED): %s' % p)
        for x, y in zip(first[p], other[p]):
          if list(x) != list(y):
            print('   ', x, '\n   ', y)
            break
  print('selftest: %d checks x %d seeds per stratum, twice in-process and once in a fresh interpreter: %s' % (
    len(pids), n, 'OK' if not bad else '%d PROBLEMS' % bad))
  return 0 if not bad else 2
