"""Self-tests of the machinery: determinism (same seed twice in one process, again in a
fresh interpreter under another PYTHONHASHSEED, across worker processes), stub fidelity
against the real stdlib classes, and that instruction events fire on the first run."""
import glob
import json
import os
import subprocess
import sys

from . import runner


def available_checks():
  here = os.path.join(runner.VERIF, 'checks')
  out = []
  for p in sorted(glob.glob(os.path.join(here, 'c[0-9][0-9].py'))):
    out.append(os.path.basename(p)[:-3].upper())
  return out


def digests(pid, n, tier='quick', base=777, reverse=False):
  check = runner._load_check(pid)
  from worlds import common as _wc
  _wc.TIER = tier
  out = []
  strata = list(check.PLAN[tier]['strata'])
  for stratum in (reversed(strata) if reverse else strata):
    for i in (range(n - 1, -1, -1) if reverse else range(n)):
      seed = runner.run_seed(base, pid, stratum, i)
      sc = check.generate(seed, stratum, tier)
      r = runner.execute_one(check, sc, {'mode': 'seeded', 'seed': seed})
      out.append([stratum, i, r.outcome, r.digest, r.steps, r.switches,
                  sorted(repr(v.key()) for v in r.violations)])
      if r.outcome == 'harness_error':
        out[-1].append(r.reason[-400:])
  return out


def stub_fidelity():
  """sequential scripts run against the real classes and the stubs"""
  import queue
  import threading
  from . import prims
  problems = []

  def script_q(Q):
    log = []
    q = Q(maxsize=2)
    log.append(q.empty())
    q.put(1); q.put(2)
    log.append((q.full(), q.qsize()))
    try:
      q.put_nowait(3)
    except queue.Full:
      log.append('Full')
    log.append(q.get())
    q.task_done()
    log.append(q.get_nowait())
    q.task_done()
    try:
      q.get_nowait()
    except queue.Empty:
      log.append('Empty')
    try:
      q.task_done()
    except ValueError:
      log.append('ValueError')
    try:
      q.get(True, 0.001) if Q is queue.Queue else log.append('skip-timeout')
    except queue.Empty:
      log.append('skip-timeout')
    return log

  if script_q(queue.Queue) != script_q(prims.SimQueue):
    problems.append('Queue scripts differ')

  class Item(object):
    def __init__(self, p, n):
      self.priority, self.n = p, n
    def __lt__(self, o):
      return self.priority < o.priority

  def script_pq(Q):
    q = Q()
    for i, p in enumerate([5, 1, 5, 3, 5, 1, 9, 5, 5, 2]):
      q.put(Item(p, i))
    out = []
    while not q.empty():
      it = q.get()
      out.append((it.priority, it.n))
    return out

  if script_pq(queue.PriorityQueue) != script_pq(prims.SimPriorityQueue):
    problems.append('PriorityQueue heap order differs')

  def script_rlock(L):
    log = []
    l = L()
    log.append(l.acquire())
    log.append(l.acquire())
    l.release(); l.release()
    try:
      l.release()
    except RuntimeError:
      log.append('RuntimeError')
    return log

  if script_rlock(threading.RLock) != script_rlock(prims.SimRLock):
    problems.append('RLock scripts differ')

  def script_ev(E):
    e = E()
    log = [e.is_set()]
    e.set(); log.append(e.is_set()); log.append(e.wait())
    e.clear(); log.append(e.is_set())
    return log

  if script_ev(threading.Event) != script_ev(prims.SimEvent):
    problems.append('Event scripts differ')

  def script_t(T):
    t = T(target=lambda: None)
    try:
      t.join()
    except RuntimeError:
      return ['RuntimeError']
    return ['joined']

  if script_t(threading.Thread) != script_t(prims.SimThread):
    problems.append('Thread.join before start differs')
  return problems


def stub_fidelity_random(nscripts=400, seed=20260922):
  """randomised differential test of the stubs: seeded scripts of non-blocking operations are run against the real
  stdlib class and against the stub; every returned value and every raised exception type must agree"""
  import collections
  import queue
  import random
  import threading
  from . import prims
  problems = []

  class Item(object):
    def __init__(self, p, n):
      self.priority, self.n = p, n
    def __lt__(self, o):
      return self.priority < o.priority

  def run_queue(Q, script, maxsize, prio):
    q = Q(maxsize) if maxsize is not None else Q()
    log = []
    n = 0
    for op in script:
      try:
        if op == 'put':
          n += 1
          q.put_nowait(Item(n % 3, n) if prio else n)
          log.append('put')
        elif op == 'putb':
          n += 1
          q.put(Item(n % 3, n) if prio else n, False)
          log.append('put')
        elif op == 'get':
          it = q.get_nowait()
          log.append(('get', (it.priority, it.n) if prio else it))
        elif op == 'gett':
          it = q.get(True, 0.0) if not isinstance(q, prims.SimQueue) else q.get(False)
          log.append(('get', (it.priority, it.n) if prio else it))
        elif op == 'qsize':
          log.append(q.qsize())
        elif op == 'empty':
          log.append(q.empty())
        elif op == 'full':
          log.append(q.full())
        elif op == 'done':
          q.task_done()
          log.append('done')
        elif op == 'unfinished':
          log.append(q.unfinished_tasks)
      except (queue.Full, queue.Empty, ValueError) as e:
        log.append(type(e).__name__)
    return log

  def run_lock(L, script):
    l = L()
    log = []
    for op in script:
      try:
        if op == 'acq':
          log.append(l.acquire(False))
        elif op == 'acqb':
          log.append(l.acquire(blocking=False))
        elif op == 'rel':
          l.release()
          log.append('rel')
      except RuntimeError:
        log.append('RuntimeError')
    return log

  def run_event(E, script):
    e = E()
    log = []
    for op in script:
      if op == 'set':
        e.set()
      elif op == 'clear':
        e.clear()
      elif op == 'is_set':
        log.append(e.is_set())
      elif op == 'wait0':
        log.append(e.wait(0) if not isinstance(e, prims.SimEvent) or e.is_set() else False)
    return log

  def run_deque(D, script, maxlen):
    d = D(maxlen=maxlen)
    log = []
    n = 0
    for op in script:
      try:
        n += 1
        if op == 'append':
          d.append(n)
        elif op == 'appendleft':
          d.appendleft(n)
        elif op == 'pop':
          log.append(d.pop())
        elif op == 'popleft':
          log.append(d.popleft())
        elif op == 'rotate':
          d.rotate(1 if n % 2 else -1)
        elif op == 'clear':
          d.clear()
        elif op == 'len':
          log.append(len(d))
        elif op == 'list':
          log.append(list(d))
        elif op == 'index0':
          log.append(d[0])
        elif op == 'last':
          log.append(d[-1])
        elif op == 'maxlen':
          log.append(d.maxlen)
      except IndexError:
        log.append('IndexError')
    return log

  rng = random.Random(seed)
  qops = ['put', 'put', 'putb', 'get', 'get', 'gett', 'qsize', 'empty', 'full', 'done', 'unfinished']
  for i in range(nscripts):
    script = [rng.choice(qops) for _ in range(rng.randrange(3, 30))]
    for real, stub, prio, name in ((queue.Queue, prims.SimQueue, False, 'Queue'), (queue.PriorityQueue, prims.SimPriorityQueue, True, 'PriorityQueue')):
      ms = rng.choice([0, 1, 2, 3, 5])
      a, b = run_queue(real, script, ms, prio), run_queue(stub, script, ms, prio)
      if a != b:
        problems.append('%s(maxsize=%d) differs on %s: real %s stub %s' % (name, ms, script, a, b))
    if hasattr(prims, 'SimLifoQueue'):
      a, b = run_queue(queue.LifoQueue, script, 0, False), run_queue(prims.SimLifoQueue, script, 0, False)
      if a != b:
        problems.append('LifoQueue differs on %s' % script)
    ls = [rng.choice(['acq', 'acqb', 'rel', 'rel']) for _ in range(rng.randrange(2, 14))]
    if run_lock(threading.RLock, ls) != run_lock(prims.SimRLock, ls):
      problems.append('RLock differs on %s: real %s stub %s' % (ls, run_lock(threading.RLock, ls), run_lock(prims.SimRLock, ls)))
    if run_lock(threading.Lock, ls) != run_lock(prims.SimLock, ls):
      problems.append('Lock differs on %s: real %s stub %s' % (ls, run_lock(threading.Lock, ls), run_lock(prims.SimLock, ls)))
    ss = [rng.choice(['acq', 'rel', 'rel']) for _ in range(rng.randrange(2, 12))]
    v0 = rng.randrange(0, 3)

    def run_sem(S):
      sem = S(v0)
      log = []
      for op in ss:
        try:
          if op == 'acq':
            log.append(sem.acquire(False))
          else:
            sem.release()
            log.append('rel')
        except ValueError:
          log.append('ValueError')
      return log
    if run_sem(threading.Semaphore) != run_sem(prims.SimSemaphore) or run_sem(threading.BoundedSemaphore) != run_sem(prims.SimBoundedSemaphore):
      problems.append('Semaphore differs on %s (initial %d)' % (ss, v0))
    es = [rng.choice(['set', 'clear', 'is_set', 'wait0']) for _ in range(rng.randrange(2, 12))]
    if run_event(threading.Event, es) != run_event(prims.SimEvent, es):
      problems.append('Event differs on %s' % es)
    ds = [rng.choice(['append', 'append', 'appendleft', 'pop', 'popleft', 'rotate', 'clear', 'len', 'list', 'index0', 'last', 'maxlen'])
          for _ in range(rng.randrange(3, 30))]
    ml = rng.choice([None, 1, 2, 3, 5])
    if run_deque(collections.deque, ds, ml) != run_deque(prims.SimDeque, ds, ml):
      problems.append('deque(maxlen=%s) differs on %s' % (ml, ds))
    if len(problems) > 5:
      break
  return problems[:6]


def main(a):
  pids = available_checks()
  if a.digests:
    want = a.digests.split(',')
    n = a.n or 5
    print(json.dumps({p: digests(p, n) for p in want}))
    return 0
  n = a.n or (2 if a.quick else 12)
  bad = 0
  probs = stub_fidelity() + stub_fidelity_random(200 if a.quick else 2000)
  for p in probs:
    print('STUB-FIDELITY: ' + p)
    bad += 1
  # same seeds twice in this process
  first = {p: digests(p, n) for p in pids}
  # the second pass runs the same seeds in the opposite order: a run must not depend on which runs the process made before it
  second = {p: sorted(digests(p, n, reverse=True), key=lambda r: (list(runner._load_check(p).PLAN['quick']['strata']).index(r[0]), r[1])) for p in pids}
  for p in pids:
    if first[p] != second[p]:
      bad += 1
      print('NON-DETERMINISTIC (same process, seeds run in the opposite order): %s' % p)
      for x, y in zip(first[p], second[p]):
        if x != y:
          print('   ', x, '\n   ', y)
          break
    for row in first[p]:
      if row[2] == 'harness_error':
        bad += 1
        print('HARNESS-ERROR in %s: %s' % (p, row))
        break
  # fresh interpreter, another hash seed
  env = dict(os.environ)
  env['PYTHONHASHSEED'] = '12345'
  env['PYTHONPATH'] = runner.VERIF
  env['PYTHONDONTWRITEBYTECODE'] = '1'
  groups = [pids[i::4] for i in range(4)] if not a.quick else [pids]
  procs = []
  for g in groups:
    if not g:
      continue
    procs.append((g, subprocess.Popen([sys.executable, '-m', 'sim.cli', 'selftest', '--digests', ','.join(g),
                                       '--n', str(n)], env=env, cwd=runner.VERIF,
                                      stdout=subprocess.PIPE, stderr=subprocess.PIPE, text=True)))
  for g, pr in procs:
    try:
      out, err = pr.communicate(timeout=900)
    except subprocess.TimeoutExpired:
      pr.kill()
      print('selftest: fresh interpreter timed out for %s' % g)
      bad += 1
      continue
    if pr.returncode != 0:
      print('selftest: fresh interpreter failed for %s:\n%s' % (g, err[-2000:]))
      bad += 1
      continue
    other = json.loads(out.strip().splitlines()[-1])
    for p in g:
      if other[p] != json.loads(json.dumps(first[p])):
        bad += 1
        print('NON-DETERMINISTIC (fresh interpreter, other PYTHONHASHSEED): %s' % p)
        for x, y in zip(first[p], other[p]):
          if list(x) != list(y):
            print('   ', x, '\n   ', y)
            break
  print('selftest: %d checks x %d seeds per stratum, twice in-process (the second time in the opposite order) and once in a fresh interpreter: %s' % (
    len(pids), n, 'OK' if not bad else '%d PROBLEMS' % bad))
  return 0 if not bad else 2
