"""Batch runner: seeded search over many simulated runs on a pool of forked worker
processes, classification of outcomes against known_findings.json, minimisation,
replay files and evidence files."""
import faulthandler
import hashlib
import importlib
import json
import multiprocessing as mp
import multiprocessing.connection as mpc
import os
import sys
import time
import traceback

VERIF = os.path.dirname(os.path.dirname(os.path.abspath(__file__)))
EVIDENCE_DIR = os.environ.get('VERIF_EVIDENCE_DIR') or os.path.join(VERIF, 'evidence')
REPLAY_DIR = os.environ.get('VERIF_REPLAY_DIR') or os.path.join(VERIF, 'replays')
KNOWN_FILE = os.path.join(VERIF, 'known_findings.json')
DEFAULT_SEED = 20260921
# determinism sweeps: every run's (stratum, index, outcome, event-log digest, steps, switches) is written here
DIGEST_LOG = os.environ.get('VERIF_DIGEST_LOG')
MASK = (1 << 64) - 1


def splitmix64(x):
  x = (x + 0x9E3779B97F4A7C15) & MASK
  z = x
  z = ((z ^ (z >> 30)) * 0xBF58476D1CE4E5B9) & MASK
  z = ((z ^ (z >> 27)) * 0x94D049BB133111EB) & MASK
  return z ^ (z >> 31)


def strhash(s):
  return int.from_bytes(hashlib.sha256(s.encode()).digest()[:8], 'big')


def run_seed(base, pid, stratum, index):
  x = splitmix64(base & MASK)
  x = splitmix64(x ^ strhash(pid))
  x = splitmix64(x ^ strhash(stratum))
  x = splitmix64(x ^ index)
  return x >> 4  # keep some head-room: seeds are multiplied by 4 inside Sim


class Violation(object):
  """one violated rule in one run; `sig` identifies the failing input/call site/history
  coarsely enough to be stable under minimisation and precisely enough not to mask a
  different failure of the same rule."""

  def __init__(self, rule, sig=None, detail=''):
    self.rule = rule
    self.sig = dict(sig or {})
    self.detail = detail

  def key(self):
    return (self.rule, tuple(sorted((k, json.dumps(v, sort_keys=True)) for k, v in self.sig.items())))

  def to_json(self):
    return {'rule': self.rule, 'sig': self.sig, 'detail': self.detail}

  @staticmethod
  def from_json(d):
    return Violation(d['rule'], d.get('sig'), d.get('detail', ''))


class RunResult(object):
  def __init__(self):
    self.outcome = 'ok'          # ok | inconclusive | violation | harness_error
    self.reason = ''
    self.violations = []
    self.nontrivial = []         # hashable behaviour signatures (ints / strings)
    self.interleavings = []      # hash(es) of the abstract switch trace
    self.states = []             # abstract state hashes
    self.counters = {}
    self.faults = {}
    self.probes = {}
    self.sample = None
    self.digest = 0
    self.decisions = None
    self.steps = 0
    self.switches = 0
    self.sim_us = 0

  def violate(self, rule, sig=None, detail=''):
    self.outcome = 'violation'
    self.violations.append(Violation(rule, sig, detail))

  def absorb_sim(self, sim):
    self.steps += sim.steps
    self.switches += sim.switches
    self.sim_us += sim.now_us
    for k, v in sim.faults.items():
      self.faults[k] = self.faults.get(k, 0) + v
    for k, v in sim.probes.items():
      self.probes[k] = self.probes.get(k, 0) + v
    for k, v in sim.counters.items():
      self.counters[k] = self.counters.get(k, 0) + v
    self.digest = hash((self.digest, sim.digest))
    if sim.switches:
      self.interleavings.append(sim.switch_signature())
    if sim.abstract_states:
      self.states.extend(hash(x) for x in sim.abstract_states)


# ------------------------------------------------------------------ known findings
def load_known():
  if not os.path.exists(KNOWN_FILE):
    return {'findings': [], 'fixed': []}
  with open(KNOWN_FILE) as fh:
    return json.load(fh)


def match_known(pid, v, known):
  for f in known.get('findings', []):
    if f.get('property') != pid or f.get('rule') != v.rule:
      continue
    ok = True
    for k, want in f.get('match', {}).items():
      have = v.sig.get(k)
      if isinstance(want, list):
        if have not in want:
          ok = False
      elif have != want:
        ok = False
    if ok:
      return f
  return None


# ------------------------------------------------------------------ worker side
def _load_check(pid):
  return importlib.import_module('checks.' + pid.lower())


def execute_one(check, scenario, sched, watchdog_s=60):
  """one simulated run with the process-level watchdog armed"""
  faulthandler.dump_traceback_later(watchdog_s, exit=True)
  try:
    try:
      res = check.execute(scenario, sched)
    except Exception as e:  # harness problem, never a verdict
      res = RunResult()
      res.outcome = 'harness_error'
      res.reason = '%s: %s\n%s' % (type(e).__name__, e, traceback.format_exc()[-2500:])
  finally:
    faulthandler.cancel_dump_traceback_later()
  return res


def _worker(conn, pid, tier, base_seed):
  sys.setswitchinterval(1e-4)
  try:
    check = _load_check(pid)
    from worlds import common as _wc
    _wc.TIER = tier
    sent_universe = False
    while True:
      msg = conn.recv()
      if msg is None:
        break
      stratum, start, count = msg
      out = {'stratum': stratum, 'runs': 0, 'ok': 0, 'inconclusive': 0, 'violation_runs': 0,
             'harness': [], 'violations': [], 'nontrivial': set(), 'interleavings': set(),
             'states': set(), 'counters': {}, 'faults': {}, 'probes': {}, 'samples': [],
             'steps': 0, 'switches': 0, 'sim_us': 0, 'inconclusive_reasons': {},
             'first': start, 'count': count}
      for i in range(start, start + count):
        seed = run_seed(base_seed, pid, stratum, i)
        try:
          scenario = check.generate(seed, stratum, tier)
        except Exception as e:
          out['harness'].append('generate: %s: %s\n%s' % (type(e).__name__, e, traceback.format_exc()[-1500:]))
          continue
        res = execute_one(check, scenario, {'mode': 'seeded', 'seed': seed})
        out['runs'] += 1
        if DIGEST_LOG:
          out.setdefault('digests', []).append((stratum, i, res.outcome, res.digest, res.steps, res.switches))
        out['steps'] += res.steps
        out['switches'] += res.switches
        out['sim_us'] += res.sim_us
        for k, v in res.counters.items():
          out['counters'][k] = out['counters'].get(k, 0) + v
        for k, v in res.faults.items():
          out['faults'][k] = out['faults'].get(k, 0) + v
        for k, v in res.probes.items():
          out['probes'][k] = out['probes'].get(k, 0) + v
        if res.outcome == 'harness_error':
          if len(out['harness']) < 3:
            out['harness'].append('seed=%d index=%d: %s' % (seed, i, res.reason))
          else:
            out['harness'].append('seed=%d (more)' % seed)
          continue
        out['nontrivial'].update(res.nontrivial)
        out['interleavings'].update(res.interleavings)
        out['states'].update(res.states)
        if res.outcome == 'ok':
          out['ok'] += 1
        elif res.outcome == 'inconclusive':
          out['inconclusive'] += 1
          out['inconclusive_reasons'][res.reason] = out['inconclusive_reasons'].get(res.reason, 0) + 1
        elif res.outcome == 'violation':
          out['violation_runs'] += 1
          have = set(v['key'] for v in out['violations'])
          for v in res.violations:
            if repr(v.key()) not in have and len(out['violations']) < 12:
              have.add(repr(v.key()))
              out['violations'].append({'key': repr(v.key()), 'v': v.to_json(), 'seed': seed,
                                        'index': i, 'stratum': stratum, 'scenario': scenario,
                                        'decisions': res.decisions})
        if res.sample is not None and len(out['samples']) < 2:
          out['samples'].append(res.sample)
      from . import kernel as _k
      out['cov'] = _k.coverage_take()
      if not sent_universe:
        out['cov_universe'] = _k.coverage_universe()
        from . import seams as _s
        out['anchors_missing'] = list(_s.anchors_missing)
        sent_universe = True
      conn.send(out)
  except (EOFError, KeyboardInterrupt):
    pass
  except BaseException as e:
    try:
      conn.send({'fatal': '%s: %s\n%s' % (type(e).__name__, e, traceback.format_exc()[-3000:])})
    except Exception:
      pass


class Pool(object):
  """forked workers fed with chunks of run indices; a worker that dies or stalls is a
  harness error for its chunk and is replaced."""

  def __init__(self, pid, tier, base_seed, jobs, chunk_timeout=240):
    self.pid, self.tier, self.base_seed = pid, tier, base_seed
    self.jobs = jobs
    self.ctx = mp.get_context('fork')
    self.workers = []
    self.chunk_timeout = chunk_timeout
    for _ in range(jobs):
      self.workers.append(self._start())

  def _start(self):
    a, b = self.ctx.Pipe()
    p = self.ctx.Process(target=_worker, args=(b, self.pid, self.tier, self.base_seed), daemon=True)
    p.start()
    b.close()
    return {'p': p, 'conn': a, 'busy': None, 'since': 0.0, 'done_runs': 0}

  def run(self, chunks, deadline, on_result, stop_early=None):
    """chunks: iterator of (stratum, start, count).  stop_early(): optional, no further chunk is handed out once it is true"""
    chunks = iter(chunks)
    pending = 0
    exhausted = False
    harness = []
    while True:
      now = time.time()
      if stop_early is not None and not exhausted and stop_early():
        exhausted = True
      for w in self.workers:
        if w['busy'] is None and not exhausted and now < deadline:
          try:
            c = next(chunks)
          except StopIteration:
            exhausted = True
            break
          w['conn'].send(c)
          w['busy'] = c
          w['since'] = now
          pending += 1
      if pending == 0:
        break
      conns = [w['conn'] for w in self.workers if w['busy'] is not None]
      ready = mpc.wait(conns, timeout=1.0)
      now = time.time()
      for i, w in enumerate(self.workers):
        if w['busy'] is None:
          continue
        if w['conn'] in ready:
          try:
            out = w['conn'].recv()
          except (EOFError, OSError):
            harness.append('worker died (watchdog or crash) during chunk %r' % (w['busy'],))
            self._replace(i)
            pending -= 1
            continue
          if 'fatal' in out:
            harness.append('worker fatal: ' + out['fatal'])
            self._replace(i)
            pending -= 1
            continue
          on_result(out)
          w['busy'] = None
          w['done_runs'] += out['runs']
          pending -= 1
          if w['done_runs'] >= 4000:     # recycle: a leaked thread cannot accumulate
            self._replace(i)
        elif now - w['since'] > self.chunk_timeout:
          harness.append('worker stalled > %ds on chunk %r' % (self.chunk_timeout, w['busy']))
          self._replace(i)
          pending -= 1
    return harness

  def _replace(self, i):
    w = self.workers[i]
    try:
      w['conn'].close()
    except Exception:
      pass
    if w['p'].is_alive():
      w['p'].kill()
    w['p'].join(5)
    self.workers[i] = self._start()

  def close(self):
    for w in self.workers:
      try:
        if w['busy'] is None:
          w['conn'].send(None)
        w['conn'].close()
      except Exception:
        pass
    for w in self.workers:
      w['p'].join(2)
      if w['p'].is_alive():
        w['p'].kill()
        w['p'].join(2)


# ------------------------------------------------------------------ minimisation and replay
def same_class(res, key):
  if res.outcome != 'violation':
    return None
  for v in res.violations:
    if repr(v.key()) == key:
      return v
  return None


def minimise(check, scenario, decisions, key, seed, budget_s):
  """shrink the scenario (check-specific candidates), then the schedule decision list.
  A candidate is kept only if a violation with the *same* rule and signature persists."""
  t_end = time.time() + budget_s
  t_scenario = time.time() + 0.6 * budget_s     # the rest is kept for the schedule
  tries = 0
  best_s, best_d = scenario, decisions
  sched_dep = getattr(check, 'SCHEDULE_DEPENDENT', True)
  nseeds = 24 if sched_dep else 1

  def attempt(sc, dec):
    """returns decisions that reproduce, or None"""
    nonlocal tries
    if dec is not None:
      tries += 1
      r = execute_one(check, sc, {'mode': 'replay', 'decisions': dec, 'seed': seed})
      if same_class(r, key) is not None:
        return r.decisions if r.decisions is not None else dec
    for k in range(nseeds):
      if time.time() > t_end:
        return None
      tries += 1
      r = execute_one(check, sc, {'mode': 'seeded', 'seed': splitmix64(seed + k) >> 4 if k else seed})
      if same_class(r, key) is not None:
        return r.decisions if r.decisions is not None else []
    return None

  shrink = getattr(check, 'shrink_candidates', None)
  if shrink is not None:
    progress = True
    while progress and time.time() < t_scenario:
      progress = False
      for cand in shrink(best_s):
        if time.time() > t_scenario:
          break
        d = attempt(cand, best_d)
        if d is not None:
          best_s, best_d = cand, d
          progress = True
          break
  # schedule shrinking: replace decisions by "default" one at a time, from the end,
  # in blocks first
  if best_d:
    dec = list(best_d)
    block = max(1, len(dec) // 2)
    while block >= 1 and time.time() < t_end:
      i = 0
      while i < len(dec) and time.time() < t_end:
        seg = dec[i:i + block]
        if any(x is not None for x in seg):
          cand = dec[:i] + [None] * len(seg) + dec[i + block:]
          tries += 1
          r = execute_one(check, best_s, {'mode': 'replay', 'decisions': cand, 'seed': seed})
          if same_class(r, key) is not None:
            dec = cand
        i += block
      block //= 2
    while dec and dec[-1] is None:
      dec.pop()
    best_d = dec
  return best_s, best_d, tries


def write_replay(pid, v, seed, stratum, scenario, decisions, digest, extra=None):
  os.makedirs(REPLAY_DIR, exist_ok=True)
  name = '%s-%s-%d.json' % (pid, v.rule.replace('/', '_').replace(' ', '_'), seed)
  path = os.path.join(REPLAY_DIR, name)
  from . import seams
  doc = {'format': 1, 'property': pid, 'rule': v.rule, 'signature': v.sig, 'detail': v.detail,
         'tree': seams.fingerprint(), 'seed': seed, 'stratum': stratum, 'scenario': scenario,
         'schedule': {'mode': 'replay', 'decisions': decisions, 'seed': seed},
         'digest': digest}
  if extra:
    doc.update(extra)
  with open(path, 'w') as fh:
    json.dump(doc, fh, indent=1, default=str)
  return path


def confirm_replay(path):
  """replay a freshly written file in a fresh interpreter: it must fail the same way"""
  import subprocess
  env = dict(os.environ)
  env['PYTHONHASHSEED'] = '0'
  env['PYTHONPATH'] = VERIF
  try:
    out = subprocess.run([sys.executable, '-m', 'sim.cli', 'replay', path], cwd=VERIF, env=env,
                         stdout=subprocess.PIPE, stderr=subprocess.STDOUT, text=True, timeout=300)
  except subprocess.TimeoutExpired:
    return 'TIMEOUT (harness problem)'
  if 'REPRODUCED' in out.stdout and 'NOT REPRODUCED' not in out.stdout:
    return 'reproduced, same event-log digest' if 'digest differs' not in out.stdout else 'reproduced, but the digest differs (harness determinism problem)'
  return 'NOT reproduced (harness determinism problem): ' + out.stdout[-300:].replace('\n', ' | ')


def replay_file(path):
  with open(path) as fh:
    doc = json.load(fh)
  pid = doc['property']
  check = _load_check(pid)
  res = execute_one(check, doc['scenario'], doc['schedule'])
  want = repr(Violation(doc['rule'], doc['signature']).key())
  v = same_class(res, want)
  print('replay %s: outcome=%s digest=%s (recorded %s)' % (path, res.outcome, res.digest, doc.get('digest')))
  if v is not None:
    same_digest = (doc.get('digest') is None) or (res.digest == doc.get('digest'))
    print('REPRODUCED property=%s rule=%s sig=%s%s' % (pid, v.rule, json.dumps(v.sig, sort_keys=True),
                                                       '' if same_digest else ' (digest differs: tree changed?)'))
    print('detail: ' + v.detail)
    return 1
  for vv in res.violations:
    print('other violation: %s %s %s' % (vv.rule, vv.sig, vv.detail))
  if res.outcome == 'harness_error':
    print(res.reason)
    return 2
  print('NOT REPRODUCED')
  return 0


# ------------------------------------------------------------------ the check driver
def run_check(pid, tier, base_seed=None, jobs=None, budget_s=None):
  from . import seams
  t0 = time.time()
  check = _load_check(pid)
  if base_seed is None:
    base_seed = int(os.environ.get('VERIF_SEED', DEFAULT_SEED))
  if jobs is None:
    jobs = int(os.environ.get('VERIF_JOBS', min(16, os.cpu_count() or 4)))
  plan = check.PLAN[tier]       # {'strata': {name: runs}, 'wall_s': cap}
  if budget_s is None:
    budget_s = float(os.environ.get('VERIF_BUDGET_S', plan.get('wall_s', 60)))
  print('check %s tier=%s base_seed=%d jobs=%d tree=%s' % (pid, tier, base_seed, jobs, seams.fingerprint()))
  sys.stdout.flush()
  chunk = plan.get('chunk', 25)

  def chunks():
    # interleave strata so that a wall cap cuts all of them evenly
    cursors = {s: 0 for s in plan['strata']}
    live = True
    while live:
      live = False
      for s, n in plan['strata'].items():
        c = cursors[s]
        if c < n:
          k = min(chunk, n - c)
          cursors[s] = c + k
          live = True
          yield (s, c, k)

  agg = {'runs': 0, 'ok': 0, 'inconclusive': 0, 'violation_runs': 0, 'nontrivial': set(),
         'interleavings': set(), 'states': set(), 'counters': {}, 'faults': {}, 'probes': {},
         'samples': [], 'steps': 0, 'switches': 0, 'sim_us': 0, 'violations': {}, 'harness': [],
         'by_stratum': {}, 'inconclusive_reasons': {}, 'cov': set(), 'cov_universe': {}}

  def on_result(out):
    for k in ('runs', 'ok', 'inconclusive', 'violation_runs', 'steps', 'switches', 'sim_us'):
      agg[k] += out[k]
    st = agg['by_stratum'].setdefault(out['stratum'], {'runs': 0, 'ok': 0, 'inconclusive': 0, 'violation_runs': 0})
    for k in st:
      st[k] += out[k]
    for k in ('nontrivial', 'interleavings', 'states'):
      agg[k].update(out[k])
    for k in ('counters', 'faults', 'probes', 'inconclusive_reasons'):
      for kk, vv in out[k].items():
        agg[k][kk] = agg[k].get(kk, 0) + vv
    if len(agg['samples']) < 5:
      agg['samples'].extend(out['samples'][:5 - len(agg['samples'])])
    agg['harness'].extend(out['harness'])
    agg['cov'].update(out.get('cov', ()))
    if DIGEST_LOG:
      agg.setdefault('digests', []).extend(out.get('digests', ()))
    if 'cov_universe' in out:
      agg['cov_universe'].update(out['cov_universe'])
      agg.setdefault('anchors_missing', set()).update(out.get('anchors_missing', ()))
    for v in out['violations']:
      cur = agg['violations'].get(v['key'])
      if cur is None or (v['stratum'], v['index']) < (cur['stratum'], cur['index']):
        agg['violations'][v['key']] = v

  pool = Pool(pid, tier, base_seed, jobs)
  try:
    # tooling (sweeps over seeded changes): stop handing out runs once a violation was seen
    stop_early = (lambda: bool(agg['violations'])) if os.environ.get('VERIF_STOP_ON_VIOLATION') else None
    harness = pool.run(chunks(), t0 + budget_s, on_result, stop_early)
  finally:
    pool.close()
  agg['harness'].extend(harness)
  search_s = time.time() - t0
  if DIGEST_LOG:
    with open(DIGEST_LOG, 'w') as fh:
      for row in sorted(agg.get('digests', [])):
        fh.write(' '.join(str(x) for x in row) + '\n')

  # ---- classify
  known = load_known()
  exit_code = 0
  known_lines = {}
  new = []
  for key in sorted(agg['violations'].keys()):
    rec = agg['violations'][key]
    v = Violation.from_json(rec['v'])
    f = match_known(pid, v, known)
    if f is not None:
      known_lines.setdefault(f['what'], []).append(rec)
    else:
      new.append((key, rec, v))
  for what in sorted(known_lines.keys()):
    print('KNOWN-FINDING: property=%s %s' % (pid, what))
  min_budget = plan.get('minimise_s', 45)
  if os.environ.get('VERIF_NO_MINIMISE'):
    min_budget = 0      # tooling: the replay file then holds the scenario as found
  replay_paths = []
  for key, rec, v in new[:4]:
    s2, d2, tries = minimise(check, rec['scenario'], rec['decisions'], key, rec['seed'], min_budget)
    final = execute_one(check, s2, {'mode': 'replay', 'decisions': d2, 'seed': rec['seed']})
    vv = same_class(final, key)
    if vv is None:  # minimised form lost it (should not happen): fall back to the original
      s2, d2 = rec['scenario'], rec['decisions']
      final = execute_one(check, s2, {'mode': 'replay', 'decisions': d2, 'seed': rec['seed']})
      vv = same_class(final, key) or v
    path = write_replay(pid, vv, rec['seed'], rec['stratum'], s2, d2, final.digest,
                        {'minimise_tries': tries, 'found_at_index': rec['index']})
    replay_paths.append(path)
    fresh = confirm_replay(path)
    print('VIOLATION property=%s replay=%s' % (pid, path))
    print('  replayed in a fresh process: %s' % fresh)
    print('  rule=%s sig=%s' % (vv.rule, json.dumps(vv.sig, sort_keys=True)))
    print('  ' + vv.detail.replace('\n', '\n  ')[:1500])
    exit_code = 1
  for key, rec, v in new[4:]:
    print('VIOLATION property=%s replay=%s' % (pid, '(not minimised: more than 4 classes) rule=%s sig=%s' % (v.rule, json.dumps(v.sig, sort_keys=True))))
    exit_code = 1
  if agg['harness']:
    print('HARNESS-ERROR (%d):' % len(agg['harness']))
    for h in agg['harness'][:5]:
      print('  ' + h.replace('\n', '\n  ')[:3000])
    if exit_code == 0:
      exit_code = 2
  conclusive = agg['ok'] + agg['violation_runs']
  min_conclusive = plan.get('min_conclusive', 1)
  if conclusive < min_conclusive and exit_code == 0:
    print('HARNESS-ERROR: only %d conclusive runs (< %d)' % (conclusive, min_conclusive))
    exit_code = 2

  wall = time.time() - t0
  write_evidence(pid, tier, base_seed, check, agg, wall, search_s, len(new), sorted(known_lines.keys()),
                 replay_paths, jobs)
  print('%s %s: runs=%d ok=%d inconclusive=%d violating=%d distinct_nontrivial=%d interleavings=%d '
        'steps=%d switches=%d sim_s=%.1f wall=%.1fs exit=%d' % (
          pid, tier, agg['runs'], agg['ok'], agg['inconclusive'], agg['violation_runs'],
          len(agg['nontrivial']), len(agg['interleavings']), agg['steps'], agg['switches'],
          agg['sim_us'] / 1e6, wall, exit_code))
  zero = [k for k in getattr(check, 'PROBES', []) if not agg['probes'].get(k)]
  if zero:
    print('warning: probes that never fired: %s' % ', '.join(zero))
  return exit_code


def _ranges(nums):
  out = []
  for n in sorted(nums):
    if out and n == out[-1][1] + 1:
      out[-1][1] = n
    else:
      out.append([n, n])
  return ','.join(str(a) if a == b else '%d-%d' % (a, b) for a, b in out)


def line_reach(agg):
  """which lines of the miros functions this check's runs executed (measured by a second
  sys.monitoring tool in the workers; module-level and class-body lines run at import and are
  not counted on either side)"""
  uni = agg.get('cov_universe') or {}
  hit = agg.get('cov') or set()
  per = {}
  for (fn, ln) in uni:
    d = per.setdefault(fn, {'lines_in_functions': 0, 'executed': 0, 'hit': []})
    d['lines_in_functions'] += 1
    if (fn, ln) in hit:
      d['executed'] += 1
      d['hit'].append(ln)
  out = {'measure': 'source lines inside functions of /repo/miros/*.py executed by at least one simulated run of this check'}
  for fn in sorted(per):
    d = per[fn]
    out[fn] = {'lines_in_functions': d['lines_in_functions'], 'executed': d['executed'],
               'executed_lines': _ranges(d['hit'])}
  return out


def write_evidence(pid, tier, base_seed, check, agg, wall, search_s, n_new, known_seen, replays, jobs):
  from . import seams
  os.makedirs(EVIDENCE_DIR, exist_ok=True)
  samples = agg['samples'] or [{'note': 'no sample recorded'}]
  cov = {
    'evaluations': agg['runs'],
    'distinct_nontrivial': len(agg['nontrivial']),
    'rule': check.RULE,
    'samples': samples[:5],
    'conclusive_runs': agg['ok'] + agg['violation_runs'],
    'inconclusive_runs': agg['inconclusive'],
    'inconclusive_reasons': agg['inconclusive_reasons'],
    'by_stratum': agg['by_stratum'],
    'runs_per_hour': int(agg['runs'] / max(search_s, 1e-6) * 3600),
    'seeds': {'base': base_seed, 'derivation': 'splitmix64(base, property, stratum, run index)',
              'runs_per_stratum': {k: v['runs'] for k, v in agg['by_stratum'].items()}},
    'simulated_seconds': round(agg['sim_us'] / 1e6, 3),
    'steps_total': agg['steps'],
    'context_switches_total': agg['switches'],
    'faults_fired': agg['faults'],
    'probes': agg['probes'],
    'counters': agg['counters'],
    'distinct_interleavings': len(agg['interleavings']),
    'distinct_interleavings_measure': 'hash of the first 400 (from-role, to-role, wait-point) triples at context switches of a run',
    'distinct_abstract_states': len(agg['states']),
    'distinct_abstract_states_measure': 'per object (pending events, wake-up tokens, live timer threads) + fabric (live delivery threads, queued publications), sampled at context switches (0 = not measured by this world)',
    'real_code': ['miros/hsm.py', 'miros/activeobject.py', 'miros/event.py', 'miros/singleton.py',
                  'miros/thread_safe_attributes.py'],
    'stubs': ['threading.Thread', 'threading.Event', 'threading.RLock', 'queue.Queue',
              'queue.PriorityQueue', 'collections.deque (recording subclass of the real deque)',
              'time.sleep/time.time', 'datetime.now', 'uuid.uuid4', 'print/pprint'],
    'miros_lines_executed': line_reach(agg),
    'anchors_missing': sorted(agg.get('anchors_missing', ())),
    'tree_fingerprint': seams.fingerprint(),
    'known_findings_reobserved': known_seen,
    'new_violation_classes': n_new,
    'replays': replays,
    'harness_errors': len(agg['harness']),
    'jobs': jobs,
    'exhaustive': False,
  }
  ev = {
    'property_id': pid,
    'tier': tier,
    'seed': base_seed,
    'level': 'exploration',
    'coverage': cov,
    'assumptions': list(getattr(check, 'ASSUMPTIONS', [])) + [
      'one bytecode and one C-level call on a builtin container are atomic (GIL model)',
      'simulated Thread/Event/RLock/Queue/PriorityQueue follow the documented CPython semantics miros relies on',
      'sampling: seeded search, not exhaustive'],
    'wall_s': round(wall, 2),
    'violations': n_new,
  }
  path = os.path.join(EVIDENCE_DIR, pid + '.json')
  tmp = path + '.tmp'
  with open(tmp, 'w') as fh:
    json.dump(ev, fh, indent=1, default=str, sort_keys=True)
  os.replace(tmp, path)
