"""Reference model of UML/Samek hierarchical state machine semantics, written against
the statements of properties C01-C03 (not against miros' implementation)."""
from worlds.chartgen import Spec


class FaultReached(Exception):
  """the injected malformation (C24) is reached by this call"""


class RefHSM(object):

  def __init__(self, spec, fault=None):
    self.sp = spec if isinstance(spec, Spec) else Spec(spec)
    self.cur = None
    self.fx_fired = {}
    self.fault = fault     # {'kind': 'init'|'none-status', 'state': F, 'signal': sig}
    self.vars = {v: False for v in self.sp.d.get('vars', [])}

  # every method returns (calls, actions, fx) where
  #   calls   = [(signal kind, state)] for ENTRY/EXIT/INIT invocations the processor must make
  #   actions = [(what, state)] for the user-visible actions that must run, in order
  #   fx      = the side-effect descriptors executed, in order
  def _fx(self, lst, out):
    for f in lst or []:
      n = self.fx_fired.get(f['id'], 0)
      if n < f.get('max', 1):
        self.fx_fired[f['id']] = n + 1
        out.append((f, n))
        if f['op'] == 'setvar':
          self.vars[f['var']] = f['value']

  def _enter(self, n, calls, actions, fx):
    st = self.sp.states[n]
    if self.fault and self.fault['kind'] == 'enter' and self.fault['state'] == n:
      raise FaultReached(n)
    calls.append(('ENTRY', n))
    if st['entry_clause']:
      actions.append(('entry', n))
      self._fx(st.get('fx', {}).get('entry'), fx)

  def _exit(self, n, calls, actions, fx):
    st = self.sp.states[n]
    calls.append(('EXIT', n))
    if st['exit_clause']:
      actions.append(('exit', n))
      self._fx(st.get('fx', {}).get('exit'), fx)

  def _drill(self, t, calls, actions, fx):
    """follow initial transitions from t; returns the resting state"""
    sp = self.sp
    while True:
      st = sp.states[t]
      calls.append(('INIT', t))
      if self.fault and self.fault['kind'] == 'init' and self.fault['state'] == t:
        raise FaultReached(t)
      if st['init'] is None:
        return t
      actions.append(('init', t))
      self._fx(st.get('fx', {}).get('init'), fx)
      target = st['init']
      path = []
      n = target
      while n != t:
        path.append(n)
        n = sp.parent[n]
        if n is None:
          raise ValueError('malformed spec: init target %s not inside %s' % (target, t))
      for n in reversed(path):
        self._enter(n, calls, actions, fx)
      t = target

  def start(self, S):
    calls, actions, fx = [], [], []
    for n in reversed(self.sp.ancestors(S)):
      self._enter(n, calls, actions, fx)
    self.cur = self._drill(S, calls, actions, fx)
    return {'kind': 'start', 'calls': calls, 'actions': actions, 'fx': fx, 'new': self.cur,
            'entered_start': S}

  def step(self, sig):
    sp = self.sp
    prev = self.cur
    offers, actions, calls, fx = [], [], [], []
    n = prev
    S = None
    kind = 'ignored'
    while n is not None:
      st = sp.states[n]
      if self.fault and self.fault['kind'] == 'none-status' and self.fault['state'] == n and self.fault['signal'] == sig:
        raise FaultReached(n)
      r = st['react'].get(sig)
      if r is None:
        n = sp.parent[n]
        continue
      if r['kind'] == 'guard':
        r = r['then'] if self.vars.get(r['var']) else {'kind': 'decline'}
      if not (r['kind'] == 'hook' and r.get('mute')):
        offers.append(n)      # (a do-nothing `handled` callback leaves no record: that offer cannot be observed)
      if r['kind'] == 'decline':
        actions.append(('decline', n))
        n = sp.parent[n]
        continue
      if r['kind'] == 'swallow':
        actions.append(('swallow', n))
        kind = 'ignored'
        S = n
        break
      if r['kind'] == 'hook':
        if not r.get('mute'):
          actions.append(('hook', n))
        self._fx(r.get('fx'), fx)
        kind = 'handled'
        S = n
        break
      kind = 'trans'
      S = n
      T = r['target']
      actions.append(('trans', n))
      self._fx(r.get('fx'), fx)
      break
    # the states asked, in order (also those with no reaction): the bubble path up to S
    path = []
    m = prev
    while m is not None:
      path.append(m)
      if m == S:
        break
      m = sp.parent[m]
    out = {'kind': kind, 'offers': offers, 'bubble': path, 'prev': prev, 'src': S, 'sig': sig}
    if kind != 'trans':
      out.update({'calls': calls, 'actions': actions, 'fx': fx, 'new': prev})
      return out
    # L: innermost state that is S or T or encloses both (statement of C01)
    if S == T:
      exit_to = sp.parent[S]       # exit up to and including S
      enter = [S]
    elif sp.is_ancestor(S, T):
      exit_to = S
      enter = []
      m = T
      while m != S:
        enter.append(m)
        m = sp.parent[m]
      enter.reverse()
    elif sp.is_ancestor(T, S):
      exit_to = T
      enter = []
    else:
      anc_s = sp.ancestors(S)
      L = None
      for m in sp.ancestors(T):
        if m in anc_s:
          L = m
          break
      exit_to = L                  # may be None: top
      enter = []
      m = T
      while m != L:
        enter.append(m)
        m = sp.parent[m]
      enter.reverse()
    m = prev
    while m != exit_to:
      self._exit(m, calls, actions, fx)
      m = sp.parent[m]
    for m in enter:
      self._enter(m, calls, actions, fx)
    self.cur = self._drill(T, calls, actions, fx)
    out.update({'calls': calls, 'actions': actions, 'fx': fx, 'new': self.cur, 'tgt': T,
                'n_exit': sum(1 for c in calls if c[0] == 'EXIT'),
                'n_entry': len(enter),
                'init_depth': sum(1 for a in actions if a[0] == 'init')})
    return out

  def is_in(self, X):
    return X == 'top' or self.sp.is_ancestor(X, self.cur)

  def child_state(self, P):
    """child of P on the path to cur; cur if P is cur; None if P does not enclose cur"""
    anc = self.sp.ancestors(self.cur)
    if P == 'top':
      return anc[-1]
    if P not in anc:
      return None
    i = anc.index(P)
    return anc[i - 1] if i > 0 else P
