"""Oracles over a ChartRun (worlds/chart.py).  Each function adds violations to `res`
under the rule names of one property; each is written against the property statement."""
from worlds.chartgen import INNER, topology_class

ACTIONS = ('decline', 'hook', 'swallow', 'trans', 'exit', 'entry', 'init')
CALLSIG = {'ENTRY_SIGNAL': 'ENTRY', 'EXIT_SIGNAL': 'EXIT', 'INIT_SIGNAL': 'INIT'}


def fname(run, state):
  """the __name__ of the state function of `state` (what miros' instrumentation prints)"""
  if run.build is None or run.build.kind not in ('closure', 'closure-spied', 'closure-mixed'):
    return state      # template/factory/to_code states are named after the state
  st = run.spec.states.get(state)
  return st.get('fn_name', state) if st is not None else state


def segments(ob):
  """split the handler records of one op into per-dispatch segments.
  returns list of (marker or None, recs)"""
  segs = []
  cur = (None, [])
  for r in ob.recs:
    if r[0] == 'dispatch':
      if cur[0] is not None or cur[1]:
        segs.append(cur)
      cur = (r, [])
    else:
      cur[1].append(r)
  if cur[0] is not None or cur[1]:
    segs.append(cur)
  return segs


def preds_of(ob):
  p = ob.pred
  if p is None:
    return None
  if 'steps' in p:
    return p['steps']
  if p.get('kind') in ('start', 'trans', 'handled', 'ignored'):
    return [p]
  return None


def obs_actions(recs):
  return [(r[0], r[1]) for r in recs if r[0] in ACTIONS]


def obs_calls(recs):
  return [(CALLSIG[r[2]], r[1]) for r in recs if r[0] == 'call' and r[2] in CALLSIG]


def obs_offers(recs, sig):
  return [r[1] for r in recs if r[0] == 'call' and r[2] == sig]


def _first_diff(exp, got):
  n = min(len(exp), len(got))
  for i in range(n):
    if tuple(exp[i]) != tuple(got[i]):
      return i
  if len(exp) != len(got):
    return n
  return None


def _phase(pred, exp_calls, i):
  """which part of the transition the i-th expected call belongs to"""
  if i is None:
    return None
  seen_init = False
  for j, c in enumerate(exp_calls):
    if j == i:
      k = c[0]
      if k == 'EXIT':
        return 'exit'
      if k == 'ENTRY':
        return 'init-entry' if seen_init else 'entry'
      return 'init'
    if c[0] == 'INIT':
      seen_init = True
  return 'extra-after-end'


def iter_dispatches(run):
  """yields (step index, ob, pred, recs, marker) for every dispatched event that has a
  prediction; for hosts without the dispatch marker the whole op is one segment"""
  for i, ob in enumerate(run.steps):
    ps = preds_of(ob)
    if ps is None or ob.op[0] in ('start', 'restart'):
      continue
    segs = segments(ob)
    if run.host in ('plain', 'instrumented'):
      segs = [(None, [r for r in ob.recs if r[0] != 'dispatch'])]
    else:
      # records before the first dispatch marker (none expected) are kept with it
      segs = [s for s in segs if s[0] is not None]
    yield i, ob, ps, segs


def has_calls(run):
  return run.build.kind in ('closure', 'closure-spied', 'closure-mixed')


def describe_step(run, i, ob, pred, recs):
  return 'op#%d %s host=%s build=%s: prev=%s src=%s tgt=%s\n expected calls %s\n observed calls %s\n expected actions %s\n observed actions %s' % (
    i, ob.op, run.host, run.build.kind, pred.get('prev'), pred.get('src'), pred.get('tgt'),
    pred.get('calls'), obs_calls(recs) if has_calls(run) else '(n/a)', pred.get('actions'), obs_actions(recs))


# ------------------------------------------------------------------ C01 / C02 / C03
def check_transitions(run, res, want=('C01', 'C02')):
  """C01: exits/entries/inits of transition steps; C02: bubbling and inert handled/ignored steps"""
  sp = run.spec
  for i, ob, preds, segs in iter_dispatches(run):
    if ob.exc is not None:
      res.violate('step-raised', {'exc': ob.exc}, 'op#%d %s raised %s\n%s' % (i, ob.op, ob.exc, ob.tb))
      return
    if len(segs) != len(preds):
      # a different number of dispatches than the deque model predicts: C14's subject
      return
    for (marker, recs), pred in zip(segs, preds):
      if pred is None:
        return
      acts = obs_actions(recs)
      if pred['kind'] == 'trans':
        if 'C01' in want:
          if has_calls(run):
            exp = pred['calls']
            got = obs_calls(recs)
            d = _first_diff(exp, got)
            if d is not None:
              res.violate('exit-entry-init-order', {'phase': _phase(pred, exp, d), 'level': 'calls'},
                          describe_step(run, i, ob, pred, recs))
              return
          d = _first_diff(pred['actions'], acts)
          if d is not None:
            what = pred['actions'][d][0] if d < len(pred['actions']) else 'extra'
            res.violate('exit-entry-init-order', {'phase': what, 'level': 'actions'},
                        describe_step(run, i, ob, pred, recs))
            return
      else:
        if 'C02' in want:
          moved = [a for a in acts if a[0] in ('exit', 'entry', 'init')]
          if has_calls(run):
            moved += [c for c in obs_calls(recs)]
          if moved:
            res.violate('action-on-inert-step', {'kind': pred['kind']},
                        'a %s event ran entry/exit/init handlers: %s\n%s' % (pred['kind'], moved, describe_step(run, i, ob, pred, recs)))
            return
          d = _first_diff(pred['actions'], acts)
          if d is not None:
            res.violate('bubble-order', {'kind': pred['kind'], 'level': 'actions'}, describe_step(run, i, ob, pred, recs))
            return
      if 'C02' in want and has_calls(run):
        got = obs_offers(recs, pred['sig'])
        if got != pred['bubble']:
          res.violate('bubble-order', {'kind': pred['kind'], 'level': 'offers'},
                      'offer sequence %s, expected %s\n%s' % (got, pred['bubble'], describe_step(run, i, ob, pred, recs)))
          return
    last = preds[-1] if preds else None
    if last is not None and ob.state != last['new']:
      if last['kind'] == 'trans':
        if 'C01' in want:
          res.violate('resting-state', {'kind': 'trans'},
                      'after op#%d %s the chart rests in %s, expected %s\n%s' % (i, ob.op, ob.state, last['new'], describe_step(run, i, ob, last, segs[-1][1] if segs else [])))
          return
      elif 'C02' in want:
        res.violate('state-changed-on-inert-step', {'kind': last['kind']},
                    'after op#%d %s the chart rests in %s, expected %s (unchanged)' % (i, ob.op, ob.state, last['new']))
        return


def check_start(run, res):
  """C03"""
  for ob in run.steps:
    if ob.op[0] in ('start', 'restart'):
      if _check_start_op(run, res, ob) is False:
        return


def _check_start_op(run, res, ob):
  pred = ob.pred
  if pred is None:
    return False
  if ob.exc is not None:
    res.violate('start-raised', {'exc': ob.exc}, 'start_at(%s) raised %s\n%s' % (ob.op[1], ob.exc, ob.tb))
    return False
  recs = [r for r in ob.recs if r[0] != 'dispatch']
  # an active object dispatches meta events right after start; only records up to the
  # first dispatch marker belong to start_at
  pre = []
  for r in ob.recs:
    if r[0] == 'dispatch':
      break
    pre.append(r)
  recs = pre
  if has_calls(run):
    got = obs_calls(recs)
    d = _first_diff(pred['calls'], got)
    if d is not None:
      res.violate('start-sequence', {'phase': _phase(pred, pred['calls'], d), 'level': 'calls'},
                  'start_at(%s) host=%s build=%s\n expected calls %s\n observed calls %s' % (ob.op[1], run.host, run.build.kind, pred['calls'], got))
      return False
  acts = obs_actions(recs)
  d = _first_diff(pred['actions'], acts)
  if d is not None:
    res.violate('start-sequence', {'phase': pred['actions'][d][0] if d < len(pred['actions']) else 'extra', 'level': 'actions'},
                'start_at(%s) host=%s build=%s\n expected actions %s\n observed actions %s' % (ob.op[1], run.host, run.build.kind, pred['actions'], acts))
    return False
  if any(a[0] == 'exit' for a in acts):
    res.violate('start-exited', {}, 'start_at exited a state: %s' % acts)
    return False
  if ob.state != pred['new']:
    res.violate('start-resting-state', {}, 'start_at(%s) rests in %s, expected %s' % (ob.op[1], ob.state, pred['new']))
    return False
  return True


def transition_signatures(run):
  """coverage: (topology class, exit depth, entry depth, init depth) of every transition step"""
  out = []
  for i, ob, preds, segs in iter_dispatches(run):
    for p in preds:
      if p and p['kind'] == 'trans':
        cls = topology_class(run.spec, p['prev'], p['src'], p['tgt'])
        out.append((cls, p['n_exit'], p['n_entry'], p['init_depth']))
  return out


# ------------------------------------------------------------------ C23
def check_state_reports(run, res):
  """state_name / state_fn / current_state() after start_at and after every step.
  Only reads made right after start/step ops count (a query rewrites state_name)."""
  for i, ob in enumerate(run.steps):
    if ob.exc is not None or ob.state is None:
      continue
    if ob.op[0] not in ('start', 'ev', 'rtc', 'circuit'):
      continue
    ps = preds_of(ob)
    if ps is None or any(p is None for p in ps):
      continue
    if ob.op[0] != 'start' and not ps:
      continue   # next_rtc on an empty queue is not a step
    expected = ps[-1]['new'] if ps else None
    cur = ob.state
    if expected is not None and cur != expected:
      continue   # a C01-type divergence: attributed there, not here
    if ob.state_name != fname(run, cur):
      res.violate('state-name', {'after': 'start' if ob.op[0] == 'start' else 'step'},
                  'after op#%d %s (host=%s build=%s) state_name=%r but the current state is %r' % (i, ob.op, run.host, run.build.kind, ob.state_name, cur))
      return
    if ob.state_fn_ok is False:
      res.violate('state-fn', {'after': 'start' if ob.op[0] == 'start' else 'step'},
                  'after op#%d %s (host=%s build=%s) state_fn=%r is not the handler of %r' % (i, ob.op, run.host, run.build.kind, ob.state_fn_name, cur))
      return
    if ob.current_state is not None and ob.instrumented and run.build.kind != 'closure':
      if ob.current_state != fname(run, cur):
        res.violate('current-state', {}, 'after op#%d %s current_state()=%r but the current state is %r' % (i, ob.op, ob.current_state, cur))
        return


# ------------------------------------------------------------------ C22
def check_queries(run, res):
  for i, ob in enumerate(run.steps):
    k = ob.op[0]
    if k not in ('is_in', 'child') or ob.pred is None:
      continue
    want = ob.pred['ret']
    if k == 'is_in':
      if ob.exc is not None:
        res.violate('is-in-raised', {'exc': ob.exc}, 'is_in(%s) raised %s\n%s' % (ob.op[1], ob.exc, ob.tb))
        return
      if bool(ob.ret) != bool(want):
        res.violate('is-in-answer', {'want': bool(want)}, 'op#%d is_in(%s) in state %s answered %r, expected %r' % (i, ob.op[1], run.ref_state_at(i), ob.ret, want))
        return
    else:
      if want is None:
        if ob.exc is None:
          res.violate('child-state-no-failure', {}, 'op#%d child_state(%s) in state %s returned %r but %s does not enclose the current state' % (i, ob.op[1], run.ref_state_at(i), ob.ret, ob.op[1]))
          return
      else:
        if ob.exc is not None:
          res.violate('child-state-raised', {'exc': ob.exc}, 'op#%d child_state(%s) raised %s\n%s' % (i, ob.op[1], ob.exc, ob.tb))
          return
        if ob.ret != want:
          res.violate('child-state-answer', {}, 'op#%d child_state(%s) in state %s returned %r, expected %r' % (i, ob.op[1], run.ref_state_at(i), ob.ret, want))
          return
    # the query must leave the chart where it was
    prev_state = None
    for j in range(i - 1, -1, -1):
      if run.steps[j].state is not None:
        prev_state = run.steps[j].state
        break
    if ob.state is not None and prev_state is not None and ob.state != prev_state:
      res.violate('query-changed-state', {'query': k}, 'op#%d %s moved the chart from %s to %s' % (i, ob.op, prev_state, ob.state))
      return
    # ... and as it was: the instrumentation flag of the processor is not the query's to change
    prev_flag = run.steps[i - 1].instrumented if i > 0 else None
    if i > 0 and prev_flag is not None and ob.instrumented is not None and bool(ob.instrumented) != bool(prev_flag):
      res.violate('query-changed-flag', {'query': k}, 'op#%d %s changed chart.instrumented from %r to %r' % (i, ob.op, prev_flag, ob.instrumented))
      return


# ------------------------------------------------------------------ C14 / C15
def check_queue_order(run, res, want=('C14', 'C15')):
  """dispatch order of a queued chart against the deque/defer model"""
  seen = {}
  reposts = 0      # postings of an Event object that had been posted before: each allows one more dispatch of it
  for i, ob in enumerate(run.steps):
    k = ob.op[0]
    if k in ('repost_fifo', 'repost_lifo'):
      reposts += 1
    if ob.exc is not None:
      res.violate('op-raised', {'op': k, 'exc': ob.exc}, 'op#%d %s raised %s\n%s' % (i, ob.op, ob.exc, ob.tb))
      return
    p = ob.pred
    if k in ('ev', 'rtc', 'circuit') and p is not None:
      got = [m[3] for m, _ in segments(ob) if m is not None]
      exp = [s['event'] for s in p['steps'] if s is not None]
      if got != exp:
        j = _first_diff([(x,) for x in exp], [(x,) for x in got])
        rule = 'dispatch-order'
        sig = {'op': k}
        if 'C15' in want and j is not None and j < len(got) and got[j] in (ob.model_d or []):
          rule, sig = 'deferred-dispatched-before-recall', {}
        res.violate(rule, sig, 'op#%d %s dispatched %s, the deque model predicts %s' % (i, ob.op, got, exp))
        return
      if k == 'rtc' and bool(ob.ret) != bool(p['ret']):
        res.violate('next-rtc-return', {'want': bool(p['ret'])}, 'op#%d next_rtc returned %r, expected %r' % (i, ob.ret, p['ret']))
        return
      if k == 'circuit' and ob.queue:
        res.violate('circuit-left-events', {}, 'op#%d complete_circuit returned with %d events still queued' % (i, len(ob.queue)))
        return
      if 'C14' in want and 'C15' not in want:
        for u in got:
          seen[u] = seen.get(u, 0) + 1
          if seen[u] > 1 and not reposts:
            res.violate('dispatched-twice', {}, 'event %s was dispatched %d times' % (u, seen[u]))
            return
    if k == 'recall' and p is not None and 'C15' in want:
      if ob.ret != p['ret']:
        res.violate('recall-return', {'want_none': p['ret'] is None},
                    'op#%d recall() returned %r, the defer model predicts %r' % (i, ob.ret, p['ret']))
        return
    if k == 'sib_rtc':
      exp = [ob.sib_pred] if ob.sib_pred is not None else []
      if ob.sib_got != exp:
        res.violate('dispatch-order', {'op': 'second-chart'},
                    'op#%d: next_rtc of the second queued chart dispatched %s, a deque driven by that chart\'s own operations predicts %s' % (i, ob.sib_got, exp))
        return
    if ob.sib_queue is not None and ob.sib_model is not None and ob.sib_queue != ob.sib_model:
      res.violate('queue-contents', {'op': 'second-chart'},
                  'after op#%d %s the queue of the second queued chart holds %s, the deque model of its own operations %s' % (i, ob.op, ob.sib_queue, ob.sib_model))
      return
    if ob.queue is not None and ob.model_q is not None and ob.queue != ob.model_q:
      res.violate('queue-contents', {'op': k}, 'after op#%d %s the queue holds %s, the deque model %s' % (i, ob.op, ob.queue, ob.model_q))
      return
    if 'C15' in want and ob.deferred is not None and ob.model_d is not None and ob.deferred != ob.model_d:
      res.violate('defer-contents', {'op': k}, 'after op#%d %s the deferred queue holds %s, the model %s' % (i, ob.op, ob.deferred, ob.model_d))
      return


# ------------------------------------------------------------------ C19: spy
class SpyModel(object):
  """expected spy lines computed from the handler-side records (closure-spied builds:
  every handler invocation leaves a 'call' record)"""

  def __init__(self, namef=None):
    self.deferred = []     # signal names, oldest first (mirrors chart.defer_queue)
    self.namef = namef or (lambda s: s)

  def lines(self, recs, cur_sig=None):
    out = []
    pending = None
    for what, a, sig, extra in recs:
      if what == 'call':
        if pending:
          out.append(pending)
          pending = None
        out.append('%s:%s' % (sig, self.namef(a)))
      elif what == 'hook':
        pass      # the HOOK line is written when the handler returns (see hook_end)
      elif what == 'hook_end':
        out.append('%s:%s:HOOK' % (sig, self.namef(a)))
      elif what == 'fx':
        op = a
        if op == 'post_fifo':
          out.append('POST_FIFO:%s' % sig)
        elif op == 'post_lifo':
          out.append('POST_LIFO:%s' % sig)
        elif op == 'defer':
          out.append('POST_DEFERRED:%s' % cur_sig)
          self.deferred.append(cur_sig)
        elif op == 'defer_new':
          out.append('POST_DEFERRED:%s' % sig)
          self.deferred.append(sig)
        elif op == 'recall':
          if self.deferred:
            s = self.deferred.pop(0)
            out.append('RECALL:%s' % s)
            out.append('POST_FIFO:%s' % s)
        elif op == 'scribble':
          out.append(extra_text(extra, sig))
        elif op == 'clear_spy':
          out.append(CLEAR)     # from here on the full spy starts afresh; the step's own log is not touched
      elif what == 'dispatch':
        cur_sig = sig
    if pending:
      out.append(pending)
    return out


CLEAR = '<<clear_spy>>'


def _no_marks(lines):
  return [x for x in lines if x is not CLEAR]


def _clear_at_step_start(lines):
  """the full spy receives a step's lines when the step ends: a clear_spy() made during the step removes what
  earlier steps logged, not the lines of the step in progress - the mark moves to the front of the step's lines"""
  if CLEAR in lines:
    return [CLEAR] + _no_marks(lines)
  return lines


def _after_clear(lines):
  """what the full spy holds: the lines logged since the last clear_spy()"""
  k = None
  for i, x in enumerate(lines):
    if x is CLEAR:
      k = i
  return lines if k is None else lines[k + 1:]


def extra_text(extra, sig):
  return sig if sig is not None else str(extra)


def _cmp_lines(res, rule, sig, head, exp, got):
  if exp == got:
    return True
  d = _first_diff([(x,) for x in exp], [(x,) for x in got])
  res.violate(rule, dict(sig, what=_line_kind(exp, got, d)),
              '%s: first difference at line %s\n expected %s\n observed %s' % (head, d, exp[-40:], got[-40:]))
  return False


def check_spy(run, res):
  """per step: spy_rtc() == what the handlers saw (+ documented markers); full spy ==
  concatenation of the step logs, truncated to the ring size.  Ground truth = the 'call'
  records the undecorated handler bodies leave (closure-spied builds)."""
  if run.build.kind != 'closure-spied' or run.host == 'plain':
    return
  from sim import seams
  H = seams.mods['hsm'].HsmEventProcessor
  SPY, RTC = H.SPY_RING_BUFFER_SIZE, H.RTC_RING_BUFFER_SIZE
  sm = SpyModel(lambda st: fname(run, st))
  host = run.host
  for i, ob in enumerate(run.steps):
    k = ob.op[0]
    if ob.exc is not None or not ob.instrumented or ob.spy_rtc is None:
      return
    head = 'op#%d %s host=%s' % (i, ob.op, host)
    if k == 'start':
      pre, rest, seen = [], [], False
      for r in ob.recs:
        if r[0] == 'dispatch':
          seen = True
        (rest if seen else pre).append(r)
      log = _clear_at_step_start(['START'] + sm.lines(pre))
      if len(log) > RTC:
        return    # the per-step ring truncated the start log: not modelled
      if host == 'instrumented':
        if not _cmp_lines(res, 'spy-rtc', {'op': 'start'}, head, log, ob.spy_rtc):
          return
        if not _cmp_lines(res, 'spy-full', {'op': 'start'}, head, log[-SPY:], ob.spy_full):
          return
      elif host == 'queued':
        refl = '<- Queued:(%d) Deferred:(%d)' % (len(ob.queue or []), len(ob.deferred or []))
        if not _cmp_lines(res, 'spy-rtc', {'op': 'start'}, head, _no_marks(log) + [refl], ob.spy_rtc):
          return
        if not _cmp_lines(res, 'spy-full', {'op': 'start'}, head, (_after_clear(log) + [refl])[-SPY:], ob.spy_full):
          return
      else:
        # active object: its thread may already have taken steps; compare the prefix
        full = ob.spy_full or []
        rest_lines = sm.lines(rest)
        if CLEAR in log or CLEAR in rest_lines:
          continue      # cleared while the thread of the active object was already taking steps: the prefix is gone
        if len(full) < SPY and not _cmp_lines(res, 'spy-full', {'op': 'start'}, head, log, full[:len(log)]):
          return
      continue
    if k == 'defer':
      sm.deferred.append(ob.op[1])
      continue
    if k == 'recall':
      if sm.deferred:
        sm.deferred.pop(0)
      continue
    if k not in ('ev', 'rtc', 'circuit') or ob.pred is None:
      continue
    if host == 'instrumented':
      log = sm.lines(list(ob.recs), ob.op[1])
      if len(log) > RTC:
        return
      if not _cmp_lines(res, 'spy-rtc', {'op': k}, head, log, ob.spy_rtc):
        return
      if not _cmp_lines(res, 'spy-full', {'op': k}, head, (ob.spy_full_before + log)[-SPY:], ob.spy_full):
        return
      continue
    segs = [sg for sg in segments(ob) if sg[0] is not None]
    preds = ob.pred.get('steps') or []
    if len(segs) != len(preds) or any(p is None for p in preds):
      return     # a different number of steps than predicted: C14's subject
    added, last = [], None
    for (m, recs), p in zip(segs, preds):
      ln = _clear_at_step_start(sm.lines([m] + recs))
      if len(ln) + 1 > RTC:
        return
      # a handler that called stop() has put the stop marker into the object's queue: it is counted by the reflection
      stopped = 1 if (host in ('ao', 'factory') and any(r[0] == 'fx' and r[1] == 'stop' for r in recs)) else 0
      last = ln + ['<- Queued:(%d) Deferred:(%d)' % (p['q_after'] + stopped, p['d_after'])]
      added.extend(last)
    if k == 'rtc' and not segs:
      last = ['<- Queued:(%d) Deferred:(%d)' % (len(ob.model_q or []), len(ob.model_d or []))]
      added = list(last)
    if host == 'queued' and last is not None:
      if not _cmp_lines(res, 'spy-rtc', {'op': k}, head, _no_marks(last), ob.spy_rtc):
        return
    if ob.spy_full_before is not None:
      if not _cmp_lines(res, 'spy-full', {'op': k}, head, _after_clear(ob.spy_full_before + added)[-SPY:], ob.spy_full):
        return


def _line_kind(exp, got, d):
  if d is None:
    return None
  e = exp[d] if d < len(exp) else None
  g = got[d] if d < len(got) else None
  def kind(x):
    if x is None:
      return 'missing'
    if x.startswith('<- Queued'):
      return 'reflection'
    if x.endswith(':HOOK'):
      return 'hook'
    for p in ('POST_FIFO', 'POST_LIFO', 'POST_DEFERRED', 'RECALL', 'START'):
      if x.startswith(p):
        return p.lower()
    return x.split(':')[0] if x.split(':')[0].endswith('_SIGNAL') else 'user-signal'
  return '%s/%s' % (kind(e), kind(g))


# ------------------------------------------------------------------ C20: trace
def check_trace(run, res):
  if run.host == 'plain' or run.build.kind == 'closure':
    return
  from sim import seams
  TRC = seams.mods['hsm'].HsmEventProcessor.TRC_RING_BUFFER_SIZE
  for i, ob in enumerate(run.steps):
    k = ob.op[0]
    if ob.exc is not None:
      if k == 'read':
        res.violate('trace-not-printable', {'exc': ob.exc}, 'op#%d reading spy()/trace() raised %s\n%s' % (i, ob.exc, ob.tb))
      return
    if not ob.instrumented or ob.trace is None or ob.trace_before is None:
      if k == 'start' and ob.instrumented and ob.trace is not None:
        pass
      else:
        continue
    if k == 'start':
      p = ob.pred
      if p is None:
        return
      tr = [t[:3] for t in ob.trace]
      start_state = ob.op[1]
      # steps the active object already took follow the start record (the ring keeps the newest TRC records)
      more = []
      for s in (p.get('steps') or []):
        if s and s['kind'] == 'trans':
          more.append((fname(run, s['prev']), s['sig'], fname(run, s['new'])))
      firsts = [('top', None, fname(run, p['new'])), ('top', None, fname(run, start_state))]
      if len(more) + 1 <= TRC and tr[:1] not in ([firsts[0]], [firsts[1]]):
        res.violate('trace-start', {}, 'after start_at(%s) the trace is %s, expected one record top -> %s' % (start_state, tr, p['new']))
        return
      exp = ([tr[0]] if len(more) + 1 <= TRC else [firsts[0]]) + more
      if tr != exp[-TRC:]:
        res.violate('trace-step', {'kind': 'after-start'}, 'after start_at the trace is %s, expected %s' % (tr, exp))
        return
      continue
    if k in ('ev', 'rtc', 'circuit') and ob.pred is not None:
      preds = ob.pred.get('steps') if 'steps' in ob.pred else [ob.pred]
      if any(p is None for p in preds):
        return
      exp_new = [(fname(run, p['prev']), p['sig'], fname(run, p['new'])) for p in preds if p['kind'] == 'trans']
      before = [t[:3] for t in ob.trace_before]
      after = [t[:3] for t in ob.trace]
      exp = (before + exp_new)[-TRC:]
      if after != exp:
        kinds = sorted(set(p['kind'] for p in preds))
        grew = len(after) - len(before)
        res.violate('trace-step', {'kind': '+'.join(kinds), 'grew': 'more' if len(after) > len(exp) else ('less' if len(after) < len(exp) else 'same')},
                    'op#%d %s (%s): trace went from %d to %d records; new records expected %s; trace tail %s' % (
                      i, ob.op, kinds, len(before), len(after), exp_new, after[-3:]))
        return
      if any(t[3] is None for t in ob.trace):
        res.violate('trace-record-without-time', {}, 'op#%d %s: a trace record has no timestamp: %s' % (i, ob.op, [t for t in ob.trace if t[3] is None]))
        return
    elif k == 'clear_trace':
      continue
    elif ob.trace_before is not None and ob.trace is not None:
      if [t[:3] for t in ob.trace_before] != [t[:3] for t in ob.trace]:
        res.violate('trace-step', {'kind': 'non-step-op'}, 'op#%d %s changed the trace' % (i, ob.op))
        return


# ------------------------------------------------------------------ C21: live output
def check_live(run, res):
  """every spy line and every new trace record is handed to the callback once, in order
  (queued charts call the callbacks inline, active objects through the writer thread)"""
  sc = run.sc
  if run.host not in ('queued', 'ao', 'factory'):
    return
  from sim import seams
  H = seams.mods['hsm'].HsmEventProcessor
  SPY, TRC = H.SPY_RING_BUFFER_SIZE, H.TRC_RING_BUFFER_SIZE
  live_spy, live_trace = bool(sc.get('live_spy')), bool(sc.get('live_trace'))
  stale = None        # a record made while live trace was off: it may still be handed out once (it never was), but only before any newer one
  for i, ob in enumerate(run.steps):
    k = ob.op[0]
    if ob.exc is not None:
      return
    if k == 'live':
      was = live_trace
      live_spy, live_trace = bool(ob.op[1]), bool(ob.op[2])
      if ob.live_spy or ob.live_trace:
        res.violate('live-spy' if ob.live_spy else 'live-trace', {'op': 'switch', 'got': 'more'},
                    'op#%d %s: switching live output handed lines to the callbacks: %s %s' % (i, ob.op, ob.live_spy, ob.live_trace))
        return
      if live_trace and not was and ob.trace:
        stale = ob.trace[-1]
      if not live_trace:
        stale = None
      continue
    if k == 'clear_trace':
      stale = None
    if not ob.instrumented or k not in ('start', 'restart', 'ev', 'rtc', 'circuit'):
      if ob.live_spy or ob.live_trace:
        res.violate('live-spy' if ob.live_spy else 'live-trace', {'op': 'non-step', 'got': 'more'},
                    'op#%d %s is not a step but lines were handed to the live callbacks: %s %s' % (i, ob.op, ob.live_spy, ob.live_trace))
        return
      continue
    head = 'op#%d %s host=%s' % (i, ob.op, run.host)
    if not live_spy and ob.live_spy:
      res.violate('live-spy', {'op': k, 'got': 'more'}, '%s: live spy is switched off but the callback received %s' % (head, ob.live_spy))
      return
    if not live_trace and ob.live_trace:
      res.violate('live-trace', {'op': 'step', 'got': 'more'}, '%s: live trace is switched off but the callback received %s' % (head, ob.live_trace))
      return
    new_recs = None
    if ob.trace is not None and ob.trace_objs is not None:
      before_objs = ob.trace_objs_before if (k != 'start' and ob.trace_objs_before is not None) else []
      old_ids = set(id(o) for o in before_objs)
      new_recs = [t for t, o in zip(ob.trace, ob.trace_objs) if id(o) not in old_ids]
    got_trace = list(ob.live_trace)
    if live_trace and stale is not None and new_recs is not None and len(got_trace) == len(new_recs) + 1 \
        and ('%s->%s' % (stale[0], stale[2])) in got_trace[0]:
      # the newest record from the time live trace was off is handed out now, for the first time: tolerated once
      got_trace = got_trace[1:]
    if ob.live_trace or new_recs:
      stale = None
    if live_spy and ob.spy_full is not None and len(ob.spy_full) < SPY:
      before = ob.spy_full_before if (k != 'start' and ob.spy_full_before is not None) else []
      new = ob.spy_full[len(before):]
      if ob.live_spy != new:
        d = _first_diff([(x,) for x in new], [(x,) for x in ob.live_spy])
        res.violate('live-spy', {'op': k, 'got': 'fewer' if len(ob.live_spy) < len(new) else ('more' if len(ob.live_spy) > len(new) else 'different')},
                    '%s: the steps produced the spy lines %s but the live spy callback received %s (first difference at %s)' % (head, new, ob.live_spy, d))
        return
    if live_trace and ob.trace is not None:
      # new records are told from old ones by object identity (the ring may have wrapped: its length says nothing)
      before = ob.trace_objs_before if (k != 'start' and ob.trace_objs_before is not None) else []
      old_ids = set(id(o) for o in before)
      new = [t for t, o in zip(ob.trace, ob.trace_objs) if id(o) not in old_ids]
      if len(ob.trace) >= TRC and len(new) == len(ob.trace):
        # every record the ring holds is new: older new ones may have been pushed out unseen.
        # The callback must have received at least these, and its last lines must describe them
        if len(got_trace) < len(new) or any(('%s->%s' % (t[0], t[2])) not in line for t, line in zip(new, got_trace[-len(new):])):
          res.violate('live-trace', {'op': 'start' if k == 'start' else 'step', 'got': 'fewer' if len(got_trace) < len(new) else 'wrong-line'},
                      '%s: the trace ring holds %d new record(s) %s but the live trace callback received %s' % (
                        head, len(new), [t[:3] for t in new], got_trace))
          return
        continue
      if len(got_trace) != len(new):
        res.violate('live-trace', {'op': 'start' if k == 'start' else 'step', 'got': 'fewer' if len(got_trace) < len(new) else 'more'},
                    '%s: %d new trace record(s) %s but the live trace callback was called %d time(s): %s' % (
                      head, len(new), [t[:3] for t in new], len(got_trace), got_trace))
        return
      for t, line in zip(new, got_trace):
        want = '%s->%s' % (t[0], t[2])
        if want not in line:
          res.violate('live-trace', {'op': 'start' if k == 'start' else 'step', 'got': 'wrong-line'},
                      '%s: live trace line %r does not describe record %s' % (head, line, t[:3]))
          return


def check_defer_holdback(run, res):
  """C15 on small capacities: whatever overflow displaces, an event that is deferred and not
  yet recalled is never dispatched, and recall returns the oldest deferred event still held.
  Copies are counted: the same event may legitimately sit in the queue (posted or recalled)
  and in the deferred queue (deferred again by a handler) at the same time."""
  pending_ok = {}     # uid -> copies legitimately in the event queue (posted or recalled)
  prev_deferred = []
  for i, ob in enumerate(run.steps):
    k = ob.op[0]
    if ob.exc is not None:
      res.violate('op-raised', {'op': k, 'exc': ob.exc}, 'op#%d %s raised %s\n%s' % (i, ob.op, ob.exc, ob.tb))
      return
    deferred_now = list(prev_deferred)
    if k in ('post_fifo', 'post_lifo', 'ev'):
      for u in ob.posted:
        pending_ok[u] = pending_ok.get(u, 0) + 1
    cur = None
    for r in ob.recs:
      if r[0] == 'dispatch':
        cur = r[3]
        if pending_ok.get(cur, 0) > 0:
          pending_ok[cur] -= 1
        elif cur in deferred_now:
          res.violate('deferred-dispatched-before-recall', {},
                      'op#%d %s dispatched %s although no posted or recalled copy of it was pending and it sits in the deferred queue %s' % (i, ob.op, cur, deferred_now))
          return
      elif r[0] == 'fx':
        if r[1] == 'defer' and cur is not None:
          deferred_now.append(cur)
        elif r[1] in ('post_fifo', 'post_lifo'):
          pending_ok[r[3]] = pending_ok.get(r[3], 0) + 1
    if k == 'recall':
      want = prev_deferred[0] if prev_deferred else None
      if ob.ret != want:
        res.violate('recall-return', {'want_none': want is None}, 'op#%d recall() returned %r, the oldest deferred event held was %r' % (i, ob.ret, want))
        return
      if ob.ret is not None:
        pending_ok[ob.ret] = pending_ok.get(ob.ret, 0) + 1
    if ob.deferred is not None:
      prev_deferred = list(ob.deferred)
