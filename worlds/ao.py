"""Active-object world: 1-3 real ActiveObjects (consumer thread, timer threads), the real
fabric and writer, and 1-6 scripted client threads, all under the seeded scheduler."""
import collections as _collections
import random
import uuid as _uuid

from sim import kernel, seams, prims
from worlds import common

USER_SIGNALS = ['SA', 'SB', 'SC', 'SD', 'SE']


class AORun(object):

  def __init__(self, sc, sim):
    self.sc = sc
    self.sim = sim
    self.objs = []           # ActiveObject instances
    self.names = []
    self.dispatch = []       # (seq, obj index, signal name, payload, thread name)
    self.posts = {}          # payload uid -> {'obj','kind','sig','begin','end','client','by'}
    self.errors = []         # (client, index, op, exc type, traceback)
    self.uid = 0
    self.handles = {}        # (client, slot) -> id returned by a timed post
    self.sources = []        # timed sources: dict(obj, kind, sig, period, times, deferred, t0_us, begin, end, threads, id, rejected, exc)
    self.cancels = []        # dict(obj, how, target, begin, end)
    self.taps = []           # plain deques subscribed to the fabric by 'tap' steps
    self.stops = []          # dict(obj, begin, end, from)
    self.pubs = {}           # uid -> dict(sig, prio, begin, end, by)
    self.subs = []           # dict(obj, sig, kind, begin, end, where)
    self.idle_marks = []     # (seq, obj)
    self.fabric = None
    self.ops_log = []
    self.handler_errors = []
    self.max_live = {'fabric.fifo': 0, 'fabric.lifo': 0}
    self.started = {}        # obj index -> seq at which start_at returned
    self.fx_fired = {}
    self.events = {}
    self.live_spy = {}
    self.live_trace = {}
    self.deferlog = []       # ('defer' | 'recall', obj, payload uid / returned uid or None, seq), in the order the handlers made them
    self.token_queue_full_seen = False   # reach: the bounded wake-up token queue was full at a context switch

  # ------------------------------------------------------------ chart of an object
  def make_handlers(self, oi, od):
    ev = seams.mods['event']
    hsm = seams.mods['hsm']
    signals, rs = ev.signals, ev.return_status
    run = self
    react = od.get('react', {})

    def body(chart, e):
      sn = e.signal_name
      sig = e.signal
      if sig == signals.ENTRY_SIGNAL or sig == signals.INIT_SIGNAL or sig == signals.EXIT_SIGNAL:
        return rs.HANDLED
      if sn in USER_SIGNALS or sn.startswith('T'):
        run.dispatch.append((run.sim.record('disp', run.names[oi], sn, e.payload), oi, sn, e.payload,
                             kernel.current_ctl().name if kernel.current_ctl() else '?'))
        for f in react.get(sn, []):
          run.handler_fx(oi, chart, e, f)
        return rs.HANDLED
      chart.temp.fun = chart.top
      return rs.SUPER

    body.__name__ = 'only_%d' % oi
    body.__qualname__ = body.__name__
    if not od.get('two_states'):
      return hsm.spy_on(body) if od.get('spied', True) else body

    # two sibling states; the signal SW makes the chart go to the other one (so that the trace grows)
    box = {}

    def make(me, other):
      def st(chart, e):
        sn = e.signal_name
        sig = e.signal
        if sig == signals.ENTRY_SIGNAL or sig == signals.INIT_SIGNAL or sig == signals.EXIT_SIGNAL:
          return rs.HANDLED
        if sn == 'SW':
          run.dispatch.append((run.sim.record('disp', run.names[oi], sn, e.payload), oi, sn, e.payload,
                               kernel.current_ctl().name if kernel.current_ctl() else '?'))
          return chart.trans(box[other])
        if sn in USER_SIGNALS or sn.startswith('T'):
          run.dispatch.append((run.sim.record('disp', run.names[oi], sn, e.payload), oi, sn, e.payload,
                               kernel.current_ctl().name if kernel.current_ctl() else '?'))
          for f in react.get(sn, []):
            run.handler_fx(oi, chart, e, f)
          return rs.HANDLED
        chart.temp.fun = chart.top
        return rs.SUPER
      st.__name__ = '%s_%d' % (me, oi)
      st.__qualname__ = st.__name__
      return hsm.spy_on(st)
    box['a'] = make('a', 'b')
    box['b'] = make('b', 'a')
    return box['a']

  def handler_fx(self, oi, chart, e, f):
    """side effects made by a handler during a step (bounded by a fire count)"""
    ev = seams.mods['event']
    n = self.fx_fired.get((oi, f['id']), 0)
    if n >= f.get('max', 1):
      return
    self.fx_fired[(oi, f['id'])] = n + 1
    op = f['op']
    try:
      if op in ('post_fifo', 'post_lifo'):
        uid = 'h%d.%d.%d' % (oi, f['id'], n)
        ne = ev.Event(signal=f['sig'], payload=uid)
        b = self.sim.record('ao', 'op', 'begin', ('handler', op))
        self.posts[uid] = {'obj': oi, 'kind': 'fifo' if op == 'post_fifo' else 'lifo', 'sig': f['sig'], 'begin': b, 'end': None,
                           'client': 'handler', 'by': 'handler'}
        (chart.post_fifo if op == 'post_fifo' else chart.post_lifo)(ne)
        self.posts[uid]['end'] = self.sim.seq
      elif op == 'publish':
        self.do_publish(oi, chart, f['sig'], f.get('prio'), 'handler')
      elif op == 'subscribe':
        self.do_subscribe(oi, chart, f['sig'], f.get('kind'), 'handler', f.get('form'))
      elif op == 'sleep':
        # a slow handler: the chart falls behind (no lock is held here)
        self.sim.fault('slow_handler')
        seams._time_facade.sleep(f['d'])
      elif op == 'timed':
        # a handler arms a timed source (the usual way: a heartbeat armed on entry / on an event)
        self.uid += 1
        uid = 't%d' % self.uid
        ne = ev.Event(signal=f['sig'], payload=uid)
        b = self.sim.record('ao', 'op', 'begin', ('handler', 'timed'))
        src = {'obj': oi, 'kind': f.get('kind', 'fifo'), 'sig': f['sig'], 'period': f['period'], 'times': f.get('times', 0),
               'deferred': f.get('deferred', True), 'uid': uid, 't0_us': self.sim.now_us, 'begin': b, 'end': None, 'client': 'handler',
               'slot': None, 'id': None, 'rejected': False, 'exc': None, 'threads': [], 'event': ne}
        self.sources.append(src)
        before = len(self.sim.threads)
        try:
          src['id'] = (chart.post_fifo if src['kind'] == 'fifo' else chart.post_lifo)(
            ne, period=f['period'], times=src['times'], deferred=src['deferred'])
        except kernel.SimAbort:
          raise
        except BaseException as ex:  # noqa
          src['rejected'] = True
          src['exc'] = type(ex).__name__
        src['threads'] = [t.name for t in self.sim.threads[before:] if t.role == 'timer']
        src['end'] = self.sim.seq
      elif op == 'defer':
        # the event being handled is set aside (it will come back with a recall)
        self.deferlog.append(('defer', oi, getattr(e, 'payload', None), self.sim.seq))
        chart.defer(e)
      elif op == 'recall':
        r = chart.recall()
        self.deferlog.append(('recall', oi, getattr(r, 'payload', None) if r is not None else None, self.sim.seq))
      elif op == 'cancel_events':
        # a handler cancels the timed sources of a signal (the usual way: on exit of the state that armed them)
        b = self.sim.record('ao', 'op', 'begin', ('handler', 'cancel_events'))
        rec = {'obj': oi, 'how': 'name', 'form': 'fresh', 'target': f['sig'], 'begin': b, 'end': None}
        self.cancels.append(rec)
        chart.cancel_events(ev.Event(signal=f['sig']))
        rec['end'] = self.sim.seq
      elif op == 'stop':
        b = self.sim.record('ao', 'op', 'begin', ('handler', 'stop'))
        rec = {'obj': oi, 'begin': b, 'end': None, 'from': 'handler'}
        self.stops.append(rec)
        chart.stop()
        rec['end'] = self.sim.seq
      elif op == 'stop_other':
        # a handler of this object stops another active object (a supervisor shutting down a worker): for the
        # other object this is a stop() from another thread
        b = self.sim.record('ao', 'op', 'begin', ('other-object', 'stop'))
        rec = {'obj': f['target'], 'begin': b, 'end': None, 'from': 'other-object'}
        self.stops.append(rec)
        self.objs[f['target']].stop()
        rec['end'] = self.sim.seq
    except kernel.SimAbort:
      raise
    except BaseException as ex:  # noqa
      import traceback
      self.handler_errors.append((oi, op, type(ex).__name__, traceback.format_exc()[-600:]))

  # ------------------------------------------------------------ operations
  def do_publish(self, oi, obj, sig, prio, by):
    ev = seams.mods['event']
    self.uid += 1
    uid = 'p%d' % self.uid
    e = ev.Event(signal=sig, payload=uid)
    b = self.sim.record('ao', 'op', 'begin', (by, 'publish'))
    self.pubs[uid] = {'sig': sig, 'prio': 1000 if prio is None else prio, 'begin': b, 'end': None, 'by': by, 'obj': oi,
                      'started': oi in self.started, 'thread_running': self._running(oi)}
    if prio is None:
      obj.publish(e)
    else:
      obj.publish(e, priority=prio)
    self.pubs[uid]['end'] = self.sim.seq
    return uid

  def do_subscribe(self, oi, obj, sig, kind, by, form=None):
    ev = seams.mods['event']
    b = self.sim.record('ao', 'op', 'begin', (by, 'subscribe'))
    rec = {'obj': oi, 'sig': sig, 'kind': kind or 'fifo', 'begin': b, 'end': None, 'where': by,
           'before_start': oi not in self.started, 'form': form or 'event'}
    self.subs.append(rec)
    # the signal is given as an event, or as its number
    arg = getattr(ev.signals, sig) if form == 'int' else ev.Event(signal=sig)
    if kind is None:
      obj.subscribe(arg)
    else:
      obj.subscribe(arg, queue_type=kind)
    rec['end'] = self.sim.seq

  def _running(self, oi):
    o = self.objs[oi]
    th = o.thread
    return th is not None and th._ctl is not None and th._ctl.state != kernel.DONE

  def consumer_ctl(self, oi):
    th = self.objs[oi].thread
    return th._ctl if th is not None else None

  def idle(self, oi):
    o = self.objs[oi]
    th = o.thread
    if th is None or th._ctl is None:
      return True
    ctl = th._ctl
    if ctl.state == kernel.DONE:
      return True
    if not (ctl.state == kernel.BLOCKED and ctl.desc.startswith('get:')):
      return False
    ld = o.locking_deque
    return ld.deque.real_len() == 0 and ld.locking_queue._qsize() == 0

  def fabric_idle(self):
    f = self.fabric
    if f is None:
      return True
    if f.fifo_fabric_queue._qsize() or f.lifo_fabric_queue._qsize():
      # items queued: idle only if nobody can take them (threads dead)
      alive = [t for t in self.sim.threads if t.role in ('fabric.fifo', 'fabric.lifo') and t.state != kernel.DONE]
      if alive:
        return False
    for t in self.sim.threads:
      if t.role in ('fabric.fifo', 'fabric.lifo') and t.state != kernel.DONE:
        if not (t.state == kernel.BLOCKED and t.desc.startswith('get:')):
          return False
    return True

  def writer_idle(self):
    if not self.objs:
      return True
    w = self.objs[0].writer
    if w._queue._qsize() != 0:
      return False
    wt = w._thread
    if wt is not None and wt._ctl is not None and wt._ctl.state != kernel.DONE:
      return wt._ctl.state == kernel.BLOCKED and wt._ctl.desc.startswith('get:')
    return True

  def all_idle(self):
    return self.fabric_idle() and all(self.idle(i) for i in range(len(self.objs))) and self.writer_idle()

  def client(self, k, script):
    ev = seams.mods['event']
    sim = self.sim
    for i, op in enumerate(script):
      kind = op[0]
      b = sim.record('ao', 'op', 'begin', (k, kind))
      out = None
      try:
        if kind == 'start':
          oi = op[1]
          self.objs[oi].start_at(self.handlers[oi])
          self.started[oi] = sim.seq
        elif kind in ('post_fifo', 'post_lifo'):
          _, oi, sig = op
          self.uid += 1
          uid = 'e%d' % self.uid
          e = ev.Event(signal=sig, payload=uid)
          self.events[uid] = e
          self.posts[uid] = {'obj': oi, 'kind': kind[5:], 'sig': sig, 'begin': b, 'end': None, 'client': k, 'by': 'client'}
          (self.objs[oi].post_fifo if kind == 'post_fifo' else self.objs[oi].post_lifo)(e)
          self.posts[uid]['end'] = sim.seq
        elif kind == 'timed':
          _, oi, qk, sig, period, times, deferred, slot = op
          self.uid += 1
          uid = 't%d' % self.uid
          e = ev.Event(signal=sig, payload=uid)
          self.events[uid] = e
          src = {'obj': oi, 'kind': qk, 'sig': sig, 'period': period, 'times': times, 'deferred': deferred, 'uid': uid,
                 't0_us': sim.now_us, 'begin': b, 'end': None, 'client': k, 'slot': slot, 'id': None, 'rejected': False,
                 'exc': None, 'threads': [], 'event': e}
          self.sources.append(src)
          before = len(sim.threads)
          kw = {'period': period}
          if times is not None:
            kw['times'] = times
          if deferred is not None:
            kw['deferred'] = deferred
          try:
            rid = (self.objs[oi].post_fifo if qk == 'fifo' else self.objs[oi].post_lifo)(e, **kw)
            src['id'] = rid
            self.handles[(k, slot)] = rid
          except kernel.SimAbort:
            raise
          except BaseException as ex:  # noqa
            src['rejected'] = True
            src['exc'] = type(ex).__name__
          src['threads'] = [t.name for t in sim.threads[before:] if t.role == 'timer']
          src['end'] = sim.seq
        elif kind == 'cancel_event':
          _, oi, ck, slot, form = op
          rid = self.handles.get((ck, slot))
          if rid is not None:
            if form == 'copy':
              arg = _uuid.UUID(str(rid))
            elif form == 'int':
              arg = _uuid.UUID(int=rid.int)
            else:
              arg = rid
            rec = {'obj': oi, 'how': 'id', 'form': form, 'target': rid, 'begin': b, 'end': None}
            self.cancels.append(rec)
            self.objs[oi].cancel_event(arg)
            rec['end'] = sim.seq
        elif kind == 'cancel_events':
          _, oi, sig, form = op
          if form == 'same':
            arg = None
            for s in self.sources:
              if s['obj'] == oi and s['sig'] == sig:
                arg = s['event']
            if arg is None:
              arg = ev.Event(signal=sig)
          elif form == 'loads':
            arg = ev.Event.loads(ev.Event.dumps(ev.Event(signal=sig)))
          elif form == 'strcopy':
            arg = ev.Event(signal=''.join(list(sig)))
          else:
            arg = ev.Event(signal=sig)
          rec = {'obj': oi, 'how': 'name', 'form': form, 'target': sig, 'begin': b, 'end': None}
          self.cancels.append(rec)
          self.objs[oi].cancel_events(arg)
          rec['end'] = sim.seq
        elif kind == 'publish':
          _, oi, sig, prio = op
          self.do_publish(oi, self.objs[oi], sig, prio, k)
        elif kind == 'subscribe':
          oi, sig, sk = op[1:4]
          self.do_subscribe(oi, self.objs[oi], sig, sk, k, op[4] if len(op) > 4 else None)
        elif kind == 'tap':
          # a plain deque (a monitor) subscribes to the signal on the same fabric
          _, oi, sig, sk = op
          tap = _collections.deque(maxlen=50)
          self.taps.append(tap)
          self.objs[oi].fabric.subscribe(tap, ev.Event(signal=sig), sk)
        elif kind == 'stop':
          oi = op[1]
          rec = {'obj': oi, 'begin': b, 'end': None, 'from': k}
          self.stops.append(rec)
          self.objs[oi].stop()
          rec['end'] = sim.seq
        elif kind == 'fabric_stop':
          self.fabric.stop()
        elif kind == 'fabric_start':
          self.fabric.start()
        elif kind == 'fabric_alive':
          out = self.fabric.is_alive()
        elif kind == 'sleep':
          seams._time_facade.sleep(op[1])
        elif kind == 'barrier':
          # all clients that use the barrier leave it at the same instant; the scheduler
          # then decides who goes first
          self.barrier_arrived = getattr(self, 'barrier_arrived', 0) + 1
          need = op[1]
          if self.barrier_arrived < need:
            sim.block(lambda: self.barrier_arrived >= need, None, 'barrier')
        elif kind == 'await_idle':
          if not self.all_idle():
            sim.block(self.all_idle, None, 'await_idle')
          self.idle_marks.append((sim.seq, None))
      except kernel.SimAbort:
        raise
      except BaseException as ex:  # noqa
        import traceback
        self.errors.append((k, i, op, type(ex).__name__, traceback.format_exc()[-800:]))
        out = 'exc:' + type(ex).__name__
      e_ = sim.record('ao', 'op', 'end', (k, kind))
      self.ops_log.append((k, i, op, b, e_, out))

  def monitor(self, sim):
    for role in ('fabric.fifo', 'fabric.lifo'):
      n = 0
      for t in sim.threads:
        if t.role == role and t.state != kernel.DONE:
          n += 1
      if n > self.max_live[role]:
        self.max_live[role] = n

  # ------------------------------------------------------------ history views
  def queue_ops(self, oi):
    """linearised operations on the pending-event deque of object oi:
    [(seq, thread name, op, payload uid or None, time_us)]"""
    label = self.objs[oi].locking_deque.deque._label
    out = []
    h, ht = self.sim.history, self.sim.history_t
    for idx in range(len(h)):
      seq, tn, kind, lab, op, detail = h[idx]
      if kind == 'deque' and lab == label:
        if op in ('append', 'appendleft', 'popleft', 'pop'):
          pl = getattr(detail, 'payload', None)
          if not isinstance(pl, str):
            pl = None      # meta events carry structured payloads; they are not user events
        else:
          pl = detail
        out.append((seq, tn, op, pl, ht[idx]))
    return out


def default_objects(n, spied=True):
  return [{'name': 'ao%d' % (i + 1), 'spied': spied, 'instrumented': True, 'react': {}} for i in range(n)]


def run_ao(sc, sched, max_steps=200000, horizon_s=None, before_run=None):
  sim = common.new_sim(sc, sched, max_steps=max_steps, default_gran='line')
  if sc.get('queue_size'):
    seams.set_queue_size(sc['queue_size'])
  run = AORun(sc, sim)
  sim.monitors.append(run.monitor)
  if before_run is not None:
    before_run(sim)
  jit = sc.get('jitter_us')
  if jit:
    jr = random.Random(sched.get('seed', 0) * 4 + 1)
    sim.jitter_us = lambda ctl, d: (jr.choice(jit) if ctl.role == 'timer' else 0)
  if sc.get('stalls'):
    sim.stall_plan = {int(k): v for k, v in sc['stalls'].items()}
    if sc.get('stall_roles'):
      sim.stall_roles = tuple(sc['stall_roles'])

  def main():
    ao = seams.mods['activeobject']
    run.handlers = []
    for oi, od in enumerate(sc['objects']):
      cls_ = ao.ActiveObject
      if od.get('class_cap'):
        # a subclass that declares its own QUEUE_SIZE, as classes of queued charts may
        cls_ = type('SizedActiveObject', (ao.ActiveObject,), {'QUEUE_SIZE': od['class_cap']})
      o = cls_(name=od['name'], instrumented=od.get('instrumented', True))
      o.locking_deque.deque._watch = True
      if od.get('live_spy') or od.get('live_trace'):
        run.live_spy.setdefault(oi, [])
        run.live_trace.setdefault(oi, [])
        o.live_spy = bool(od.get('live_spy'))
        o.live_trace = bool(od.get('live_trace'))
        o.register_live_spy_callback(lambda line, oi=oi: run.live_spy[oi].append(line))
        o.register_live_trace_callback(lambda line, oi=oi: run.live_trace[oi].append(line))
      run.objs.append(o)
      run.names.append(od['name'])
      run.handlers.append(run.make_handlers(oi, od))
    run.fabric = ao.ActiveFabric()
    for k, script in enumerate(sc['clients']):
      sim.spawn(run.client, (k, script), role='client')

  def state_fn():
    out = []
    for o in run.objs:
      ld = o.locking_deque
      out.append((min(ld.deque.real_len(), 8), min(ld.locking_queue._qsize(), 8)))
      if ld.locking_queue.maxsize and ld.locking_queue._qsize() >= ld.locking_queue.maxsize:
        run.token_queue_full_seen = True
    timers = sum(1 for t in sim.threads if t.role == 'timer' and t.state != kernel.DONE)
    f = run.fabric
    fab = (sum(1 for t in sim.threads if t.role.startswith('fabric') and t.state != kernel.DONE),
           min(f.fifo_fabric_queue._qsize(), 5), min(f.lifo_fabric_queue._qsize(), 5)) if f is not None else ()
    return (tuple(out), min(timers, 6), fab)
  sim.state_fn = state_fn

  sim.spawn(main, role='main')
  reason = sim.run(horizon_us=int(horizon_s * 1e6) if horizon_s else None)
  return run, sim, reason
