"""Seeded generation of statechart specs (plain data) and the build methods that turn a
spec into real miros state handlers:
  closure   hand-written style handlers (canonical if/elif idiom), optionally @spy_on
  template  state_method_template + register_signal_callback + register_parent
  factory   Factory.create/catch/nest/to_method
  to_code   the text returned by to_code for every state of a template/factory build,
            exec-ed and used in place of the generated state functions
Every handler/callback appends records to the run history from inside its own body, so
the ground truth of what ran does not depend on miros' instrumentation."""
import linecache
import random

from sim import seams

INNER = ('ENTRY_SIGNAL', 'EXIT_SIGNAL', 'INIT_SIGNAL')


# ------------------------------------------------------------------ spec helpers
class Spec(object):
  """convenience view over the plain-data spec"""

  def __init__(self, d):
    self.d = d
    self.signals = list(d['signals'])
    self.states = {s['name']: s for s in d['states']}
    self.order = [s['name'] for s in d['states']]
    self.parent = {s['name']: s['parent'] for s in d['states']}
    self.children = {n: [] for n in self.order}
    for n in self.order:
      p = self.parent[n]
      if p is not None:
        self.children[p].append(n)

  def ancestors(self, n):
    """n itself first, then outward (top excluded)"""
    out = []
    while n is not None:
      out.append(n)
      n = self.parent[n]
    return out

  def depth(self, n):
    return len(self.ancestors(n))

  def is_ancestor(self, a, b):
    """a is b or encloses b"""
    return a in self.ancestors(b)

  def descendants(self, n):
    out = []
    stack = list(self.children[n])
    while stack:
      c = stack.pop()
      out.append(c)
      stack.extend(self.children[c])
    return out


def gen_spec(rng, nstates=None, max_depth=8, nsignals=None, shape=None, p_init=0.45,
             p_react=0.5, clauses='mixed', fx_rate=0.0, fx_ops=('post_fifo', 'post_lifo'),
             decline_bias=0.2, deep=False, tricky_names=0.3, p_vars=0.4, p_query=0.2, name_style=None, p_poke=0.15, p_swallow=0.0, p_mute=0.0, p_decline_query=0.0):
  """draw a chart spec.  All randomness comes from rng."""
  if nstates is None:
    nstates = rng.randrange(2, 15)
  if nsignals is None:
    nsignals = rng.randrange(2, 7)
  if shape is None:
    shape = rng.choice(['chain', 'bushy', 'random'])
  signals = ['S%s' % chr(ord('A') + i) for i in range(nsignals)]
  if tricky_names and rng.random() < tricky_names:
    # user signals whose names resemble the built-in ones (they are ordinary user signals)
    pool = ['BUTTON_SIGNAL', 'ENTRY', 'EXIT_SIGNALS', 'MY_INIT_SIGNAL', 'entry_signal', 'SIGNAL', 'STOP_SIGNAL',
            'REFLECTION', 'EMPTY', 'SUPER_SIGNAL', 'A_SIGNAL_B', 'SEARCH_FOR_SUPER', 'top', 'HOOK']
    rng.shuffle(pool)
    for i in range(min(len(signals), rng.randrange(1, 4))):
      signals[i] = pool[i]
  names = ['q%d' % (i + 1) for i in range(nstates)]
  states = []
  depth = {}
  for i, n in enumerate(names):
    if i == 0:
      parent = None
    else:
      if shape == 'chain':
        # mostly extend the deepest chain
        cands = [m for m in names[:i] if depth[m] < max_depth]
        deepest = max(cands, key=lambda m: depth[m])
        parent = deepest if rng.random() < 0.75 else rng.choice(cands + [None])
      elif shape == 'bushy':
        cands = [m for m in names[:i] if depth[m] < min(max_depth, 3)]
        parent = rng.choice(cands + [None, None])
      else:
        cands = [m for m in names[:i] if depth[m] < max_depth]
        parent = rng.choice(cands + [None])
    depth[n] = 1 if parent is None else depth[parent] + 1
    states.append({'name': n, 'parent': parent, 'init': None,
                   'entry_clause': True, 'exit_clause': True, 'init_clause': True,
                   'fx': {}, 'react': {}})
  sp = Spec({'signals': signals, 'states': states})
  fx_id = [0]

  def draw_fx(inner=False):
    if fx_rate <= 0 or rng.random() >= fx_rate:
      return []
    out = []
    # deferring only makes sense for the user event being processed, not for the
    # ENTRY/EXIT/INIT events the processor itself sends
    ops = [o for o in fx_ops if not (inner and o == 'defer')]
    if not ops:
      return []
    for _ in range(rng.randrange(1, 3)):
      op = rng.choice(ops)
      fx_id[0] += 1
      f = {'op': op, 'id': fx_id[0], 'max': rng.choice([1, 1, 2, 3])}
      if op in ('post_fifo', 'post_lifo', 'defer_new'):
        f['sig'] = rng.choice(signals)
      elif op == 'scribble':
        f['text'] = 'note%d' % fx_id[0]
      out.append(f)
    return out

  # extended state: boolean variables read by guards and written by actions
  vars_ = ['g%d' % i for i in range(rng.randrange(1, 3))] if rng.random() < p_vars else []

  def plain_fx(hook):
    """side effects that need no queue: writing extended state, querying the chart from a handler"""
    out = []
    if vars_ and rng.random() < 0.5:
      fx_id[0] += 1
      out.append({'op': 'setvar', 'var': rng.choice(vars_), 'value': rng.random() < 0.6, 'id': fx_id[0], 'max': 1000})
    if rng.random() < p_poke:
      # an action that sends an event to another chart (an orthogonal component), which makes a transition of its own
      fx_id[0] += 1
      out.append({'op': 'poke', 'id': fx_id[0], 'max': 1000})
    if hook and rng.random() < p_query:
      fx_id[0] += 1
      out.append({'op': 'query', 'q': rng.choice(['is_in', 'child', 'current_state']), 'arg': rng.choice(names + ['top']),
                  'id': fx_id[0], 'max': 1000})
    return out

  for s in states:
    n = s['name']
    desc = sp.descendants(n)
    if desc and rng.random() < (0.8 if deep else p_init):
      if deep:
        # prefer far descendants: initial transitions that skip several levels
        desc.sort(key=lambda m: -sp.depth(m))
        s['init'] = desc[0] if rng.random() < 0.6 else rng.choice(desc)
      else:
        s['init'] = rng.choice(desc)
    if clauses == 'mixed':
      s['entry_clause'] = rng.random() < 0.8
      s['exit_clause'] = rng.random() < 0.8
      s['init_clause'] = True if s['init'] else rng.random() < 0.7
    for w in ('entry', 'exit', 'init'):
      if s[w + '_clause'] and (w != 'init' or s['init']):
        f = draw_fx(inner=True) + [x for x in plain_fx(False) if x['op'] == 'poke']
        if f:
          s['fx'][w] = f
    for sig in signals:
      if rng.random() < p_react:
        r = rng.random()
        if p_swallow and rng.random() < p_swallow:
          # the state answers the event by ignoring it explicitly (returns IGNORED): it stops there
          s['react'][sig] = {'kind': 'swallow'}
          continue
        if r < decline_bias:
          s['react'][sig] = {'kind': 'decline'}
          if p_decline_query and rng.random() < p_decline_query:
            # a guard that looks at the chart (is_in, child_state, current_state) and then declines
            fx_id[0] += 1
            s['react'][sig]['fx'] = [{'op': 'query', 'q': rng.choice(['is_in', 'child', 'current_state']), 'arg': rng.choice(names + ['top']),
                                      'id': fx_id[0], 'max': 1000}]
        elif r < decline_bias + 0.25:
          s['react'][sig] = {'kind': 'hook', 'fx': draw_fx() + plain_fx(True)}
          if p_mute and rng.random() < p_mute:
            # the customary do-nothing hook: a callback called `handled` that only returns HANDLED (masks the signal)
            s['react'][sig] = {'kind': 'hook', 'fx': [], 'mute': True}
        else:
          s['react'][sig] = {'kind': 'trans', 'target': rng.choice(names), 'fx': draw_fx() + plain_fx(False)}
        if vars_ and rng.random() < 0.3:
          # a guard that reads extended state: the same (state, signal) can decline now and react later
          s['react'][sig] = {'kind': 'guard', 'var': rng.choice(vars_), 'then': s['react'][sig] if s['react'][sig]['kind'] != 'decline'
                             else {'kind': 'hook', 'fx': plain_fx(True)}}
  if name_style is None:
    name_style = rng.choices(['unique', 'dups', 'anon'], weights=[16, 3, 1])[0]
  if name_style == 'dups' and len(states) >= 3:
    # distinct state functions that share a __name__ (two sub-machines each with an "idle" state)
    k = rng.randrange(2, min(4, len(states)) + 1)
    for st in rng.sample(states, k):
      st['fn_name'] = 'idle'
  elif name_style == 'anon':
    for st in states:
      st['fn_name'] = 'handler'
  return {'signals': signals, 'states': states, 'vars': vars_}


def topology_class(sp, cur, S, T):
  """the a..h class of miros' trans_ documentation plus depth figures (coverage measure)"""
  if S == T:
    cls = 'a'
  elif sp.parent[T] == S:
    cls = 'b'
  elif sp.parent[S] == sp.parent[T]:
    cls = 'c'
  elif sp.parent[S] == T:
    cls = 'd'
  elif sp.is_ancestor(S, T):
    cls = 'e'
  elif sp.is_ancestor(T, S):
    cls = 'h'
  else:
    # f: S.parent is an ancestor of T ; g otherwise
    cls = 'f' if (sp.parent[S] is None or sp.is_ancestor(sp.parent[S], T)) else 'g'
  return cls


# ------------------------------------------------------------------ builds
class Build(object):
  """the handlers of one chart instance.  rec(what, state, signal_name, extra) is called
  from inside the handler bodies."""

  def __init__(self, spec, rec, effects=None):
    self.spec = spec if isinstance(spec, Spec) else Spec(spec)
    self.rec = rec
    self.h = {}          # state name -> handler to hand to miros
    self.effects = effects   # callable(chart, event, fx dict) -> None
    self.raw = {}        # state name -> undecorated function (closure build)
    self.kind = None
    self.code_text = {}
    self.vars = {}       # extended state shared with the run (read by guards)

  def fn(self, name):
    return self.h[name]

  def name_of(self, fn):
    n = getattr(fn, '__name__', None)
    return n

  def _fx(self, chart, e, lst):
    if lst and self.effects is not None:
      for f in lst:
        self.effects(chart, e, f)


def build_closure(spec, rec, spied=True, effects=None, malform=None, unspied=()):
  """hand-written style.  malform: optional {'state':..,'signal':..} -> that handler returns
  None for that signal (C24)"""
  ev = seams.mods['event']
  hsm = seams.mods['hsm']
  signals, rs = ev.signals, ev.return_status
  b = Build(spec, rec, effects)
  b.kind = ('closure-mixed' if unspied else 'closure-spied') if spied else 'closure'   # mixed: some states lack the decorator
  sp = b.spec

  def make(st):
    name = st['name']
    react = st['react']
    parent = st['parent']
    fx = st.get('fx', {})
    bad_sig = malform['signal'] if (malform and malform.get('state') == name and malform.get('kind') == 'none-status') else None

    no_else = bool(malform and malform.get('state') == name and malform.get('kind') == 'no-else')

    def handler(chart, e):
      sn = e.signal_name
      rec('call', name, sn, None)
      if bad_sig is not None and sn == bad_sig:
        return None
      sig = e.signal
      if sig == signals.ENTRY_SIGNAL and st['entry_clause']:
        rec('entry', name, sn, None)
        b._fx(chart, e, fx.get('entry'))
        return rs.HANDLED
      elif sig == signals.INIT_SIGNAL and st['init_clause']:
        if st['init'] is not None:
          rec('init', name, sn, None)
          b._fx(chart, e, fx.get('init'))
          return chart.trans(b.h[st['init']])
        return rs.HANDLED
      elif sig == signals.EXIT_SIGNAL and st['exit_clause']:
        rec('exit', name, sn, None)
        b._fx(chart, e, fx.get('exit'))
        return rs.HANDLED
      elif sn in react:
        r = react[sn]
        k = r['kind']
        if k == 'guard':
          if b.vars.get(r['var']):
            r = r['then']
            k = r['kind']
          else:
            rec('decline', name, sn, None)
            return rs.UNHANDLED
        if k == 'hook':
          if r.get('mute'):
            return rs.HANDLED
          rec('hook', name, sn, None)
          b._fx(chart, e, r.get('fx'))
          rec('hook_end', name, sn, None)
          return rs.HANDLED
        elif k == 'decline':
          rec('decline', name, sn, None)
          b._fx(chart, e, r.get('fx'))
          return rs.UNHANDLED
        elif k == 'swallow':
          rec('swallow', name, sn, None)
          return rs.IGNORED
        else:
          rec('trans', name, sn, r['target'])
          b._fx(chart, e, r.get('fx'))
          return chart.trans(b.h[r['target']])
      if no_else:
        return None       # the forgotten else clause: no status (and no super state) for anything the state has no branch for
      chart.temp.fun = b.h[parent] if parent is not None else chart.top
      return rs.SUPER

    handler.__name__ = st.get('fn_name', name)
    handler.__qualname__ = handler.__name__
    return handler

  for st in sp.d['states']:
    raw = make(st)
    b.raw[st['name']] = raw
    b.h[st['name']] = hsm.spy_on(raw) if spied and st['name'] not in unspied else raw
  return b


def _callbacks(b, chart_ns):
  """callbacks for the template/factory/to_code builds: plain uniquely named functions"""
  ev = seams.mods['event']
  signals, rs = ev.signals, ev.return_status
  sp = b.spec
  cbs = {}   # (state, signal name) -> fn

  def mk(st, sn, what):
    name = st['name']

    if what == 'entry':
      def cb(chart, e):
        b.rec('entry', name, e.signal_name, None)
        b._fx(chart, e, st.get('fx', {}).get('entry'))
        return rs.HANDLED
    elif what == 'exit':
      def cb(chart, e):
        b.rec('exit', name, e.signal_name, None)
        b._fx(chart, e, st.get('fx', {}).get('exit'))
        return rs.HANDLED
    elif what == 'init':
      def cb(chart, e):
        if st['init'] is not None:
          b.rec('init', name, e.signal_name, None)
          b._fx(chart, e, st.get('fx', {}).get('init'))
          return chart.trans(chart_ns[st['init']])
        return rs.HANDLED
    else:
      r = st['react'][sn]
      k = r['kind']
      if k == 'guard':
        inner = r['then']

        def cb(chart, e):
          if not b.vars.get(r['var']):
            b.rec('decline', name, e.signal_name, None)
            return rs.UNHANDLED
          if inner['kind'] == 'hook':
            if inner.get('mute'):
              return rs.HANDLED
            b.rec('hook', name, e.signal_name, None)
            b._fx(chart, e, inner.get('fx'))
            return rs.HANDLED
          b.rec('trans', name, e.signal_name, inner['target'])
          b._fx(chart, e, inner.get('fx'))
          return chart.trans(chart_ns[inner['target']])
      elif k == 'hook' and r.get('mute'):
        def handled(chart, e):
          return rs.HANDLED
        return handled
      elif k == 'hook':
        def cb(chart, e):
          b.rec('hook', name, e.signal_name, None)
          b._fx(chart, e, r.get('fx'))
          return rs.HANDLED
      elif k == 'decline':
        def cb(chart, e):
          b.rec('decline', name, e.signal_name, None)
          b._fx(chart, e, r.get('fx'))
          return rs.UNHANDLED
      elif k == 'swallow':
        def cb(chart, e):
          b.rec('swallow', name, e.signal_name, None)
          return rs.IGNORED
      else:
        def cb(chart, e):
          b.rec('trans', name, e.signal_name, r['target'])
          b._fx(chart, e, r.get('fx'))
          return chart.trans(chart_ns[r['target']])
    cb.__name__ = 'cb_%s_%s' % (name, sn)
    cb.__qualname__ = cb.__name__
    return cb

  b.make_cb = lambda st, sn: mk(st, sn, 'react')      # for registrations made later on
  for st in sp.d['states']:
    if st['entry_clause']:
      cbs[(st['name'], 'ENTRY_SIGNAL')] = mk(st, 'ENTRY_SIGNAL', 'entry')
    if st['exit_clause']:
      cbs[(st['name'], 'EXIT_SIGNAL')] = mk(st, 'EXIT_SIGNAL', 'exit')
    if st['init_clause']:
      cbs[(st['name'], 'INIT_SIGNAL')] = mk(st, 'INIT_SIGNAL', 'init')
    for sn in sorted(st['react'].keys()):
      cbs[(st['name'], sn)] = mk(st, sn, 'react')
  return cbs


def build_template(spec, rec, chart, effects=None):
  hsm = seams.mods['hsm']
  ev = seams.mods['event']
  b = Build(spec, rec, effects)
  b.kind = 'template'
  sp = b.spec
  ns = b.h
  for n in sp.order:
    ns[n] = hsm.state_method_template(n)
  b.cbs = _callbacks(b, ns)
  for n in sp.order:
    st = sp.states[n]
    keys = [k for k in b.cbs if k[0] == n]
    if not keys:
      # a state with nothing registered at all still needs an entry in the lookup
      # table of the first state (miros creates the table on first registration)
      pass
    for (_, sn) in sorted(keys):
      chart.register_signal_callback(ns[n], getattr(ev.signals, sn), b.cbs[(n, sn)])
    chart.register_parent(ns[n], ns[st['parent']] if st['parent'] is not None else chart.top)
  if not hasattr(chart, '_lookup'):
    chart._lookup = {}
  return b


def build_factory(spec, rec, factory, effects=None):
  ev = seams.mods['event']
  b = Build(spec, rec, effects)
  b.kind = 'factory'
  sp = b.spec
  ns = b.h
  blue = {}
  for n in sp.order:
    blue[n] = factory.create(state=n)
    ns[n] = blue[n].to_method()
  b.cbs = _callbacks(b, ns)
  for n in sp.order:
    st = sp.states[n]
    for (_, sn) in sorted(k for k in b.cbs if k[0] == n):
      blue[n].catch(signal=getattr(ev.signals, sn), handler=b.cbs[(n, sn)])
    factory.nest(ns[n], parent=ns[st['parent']] if st['parent'] is not None else None)
  if not hasattr(factory, '_lookup'):
    factory._lookup = {}
  return b


_code_counter = [0]


def build_to_code(spec, rec, chart, base, effects=None):
  """base: a template/factory Build registered on `chart`; returns a Build whose handlers
  are the exec-ed to_code texts"""
  ev = seams.mods['event']
  hsm = seams.mods['hsm']
  b = Build(spec, rec, effects)
  b.kind = 'to_code(' + base.kind + ')'
  sp = b.spec
  ns = {'spy_on': hsm.spy_on, 'return_status': ev.return_status, 'signals': ev.signals}
  # the callbacks of the new build must transition to the *new* state functions
  b.cbs = _callbacks(b, b.h)
  for (n, sn), cb in b.cbs.items():
    ns[cb.__name__] = cb
  texts = []
  for n in sp.order:
    if n not in getattr(chart, '_lookup', {}):
      # to_code needs an entry in the callback table; a state with nothing registered has none
      chart._lookup[n] = {}
    t = chart.to_code(base.h[n])
    b.code_text[n] = t
    texts.append(t)
  src = '\n'.join(texts)
  _code_counter[0] += 1
  fname = '<to_code-%d>' % _code_counter[0]
  lines = src.splitlines(True)
  linecache.cache[fname] = (len(src), None, lines, fname)
  exec(compile(src, fname, 'exec'), ns)
  linecache.cache.pop(fname, None)
  for n in sp.order:
    b.h[n] = ns[n]
  return b
