"""helpers shared by the worlds: building a Sim from (scenario, schedule), policies
drawn per run (swarm), finishing a run."""
import random

from sim import kernel, seams, prims
from sim.runner import RunResult

GRAN = {'sync': kernel.G_SYNC, 'line': kernel.G_LINE, 'opcode': kernel.G_OPCODE}

# the tier the generators are drawing for (set by the runner's workers and by the self-test).  In the thorough
# tier a quarter of the scenarios are drawn with deeper bounds - more threads, more operations, larger charts,
# longer histories - than the quick tier ever uses; a scenario, once drawn, is explicit data and no longer depends on it
TIER = 'quick'


def deep(rng, p=0.25):
  """decides (with the scenario's own generator) whether this scenario uses the deeper bounds"""
  return TIER == 'thorough' and rng.random() < p


def span(rng, lo, hi, big=False, factor=2):
  """randrange(lo, hi), stretched when the scenario uses the deeper bounds"""
  if big:
    return rng.randrange(lo, lo + (hi - lo) * factor + 1)
  return rng.randrange(lo, hi)


def draw_sched(rng, grans=('sync', 'line', 'opcode'), weights=None, expected_steps=400,
               victims=None, policies=('sticky', 'pct', 'starve')):
  """per-run swarm choice of granularity and scheduling policy (plain data)"""
  g = rng.choices(list(grans), weights=weights)[0] if weights else rng.choice(list(grans))
  kind = rng.choice(list(policies))
  d = {'gran': g, 'policy': kind}
  if kind == 'sticky':
    d['s'] = rng.choice([0.0, 0.5, 0.9, 0.99])
  elif kind == 'pct':
    d['depth'] = rng.choice([1, 2, 3])
    d['expected'] = expected_steps
  elif kind == 'starve':
    d['s'] = rng.choice([0.5, 0.9])
    d['victims'] = list(victims or ['consumer'])
    d['start'] = rng.randrange(0, max(1, expected_steps // 2))
    d['len'] = rng.choice([20, 100, 400, 2000])
  elif kind == 'rr':
    d['quantum'] = rng.randrange(1, 8)
  return d


def draw_stalls(rng, expected_steps, rate=0.5, n=(1, 4), durations=(1000, 50000, 300000, 2000000)):
  """the "slow or stalled node" fault: at a few drawn pre-emption points the running thread
  is descheduled for a drawn amount of virtual time (plain data: step index -> microseconds)"""
  if rng.random() >= rate:
    return {}
  return {str(rng.randrange(1, max(2, expected_steps))): rng.choice(list(durations)) for _ in range(rng.randrange(*n))}


def make_policy(desc, rng):
  kind = desc.get('policy', 'sticky')
  if kind == 'sticky':
    return kernel.StickyRandom(rng, desc.get('s', 0.9))
  if kind == 'pct':
    return kernel.PCT(rng, desc.get('depth', 2), desc.get('expected', 400))
  if kind == 'starve':
    return kernel.Starve(rng, desc.get('s', 0.9), desc.get('victims', ['consumer']),
                         desc.get('start', 0), desc.get('len', 100))
  if kind == 'rr':
    return kernel.RoundRobin(desc.get('quantum', 1))
  if kind == 'phased':
    return kernel.Phased(make_policy(desc['first'], rng), desc.get('switch_at', 200), make_policy(desc['then'], rng))
  raise ValueError(kind)


def new_sim(scenario, sched, max_steps=200000, default_gran='line'):
  seams.install()
  seams.reset_globals()
  sd = scenario.get('sched', {})
  seed = sched.get('seed', 0)
  rng = random.Random(seed * 4 + 0)
  if sched.get('mode') == 'replay':
    pol = kernel.Replay(sched.get('decisions') or [])
  else:
    pol = make_policy(sd, rng)
  sim = kernel.Sim(seed, policy=pol, gran=GRAN[sd.get('gran', default_gran)], max_steps=max_steps)
  sim.rng_sched = rng
  return sim


def finish(sim, res):
  """teardown and fold the run's counters into the result"""
  if isinstance(sim.policy, kernel.Replay) and sim.policy.diverged:
    res.counters['replay_diverged'] = res.counters.get('replay_diverged', 0) + sim.policy.diverged
  res.decisions = list(sim.decisions)
  res.absorb_sim(sim)
  sim.teardown()


def thread_error_violations(sim, res, rule='thread-died', allow=()):
  for name, typ, msg, tb in sim.thread_errors:
    if typ in allow:
      continue
    res.violate(rule, {'thread': name.split('#')[0], 'exc': typ}, '%s died: %s: %s\n%s' % (name, typ, msg, tb[-600:]))
