"""Fabric world: the real ActiveFabricSource (both delivery threads) with plain deques and
LockingDeques as subscriber queues, driven by scripted client threads."""
import random

from sim import kernel, seams, prims
from worlds import common


class InjectedFault(Exception):
  """raised by a faulty subscriber queue (fault injection: a failing call inside a delivery)"""


class FaultyDeque(prims.SimDeque):
  """a subscriber queue whose append/appendleft raises at drawn call indices"""

  def _maybe_fail(self):
    n = getattr(self, '_calls', 0)
    self._calls = n + 1
    if n in getattr(self, '_fail_at', ()):
      s = kernel.current_sim()
      if s is not None:
        s.fault('subscriber_append_raises')
      raise InjectedFault('injected: subscriber queue refuses delivery #%d' % n)

  def append(self, x):
    self._maybe_fail()
    return prims.SimDeque.append(self, x)

  def appendleft(self, x):
    self._maybe_fail()
    return prims.SimDeque.appendleft(self, x)


class FabricRun(object):

  def __init__(self, sc, sim):
    self.sc = sc
    self.sim = sim
    self.queues = []        # subscriber queue objects
    self.inner = []         # the recording deque of each (the object itself or LockingDeque.deque)
    self.fabric = None
    self.pubs = {}          # uid -> {'sig','prio','begin','end','client'}
    self.subs = []          # {'q','sig','kind','begin','end'}
    self.ops_log = []       # (client, index, op, begin seq, end seq, result/exc)
    self.errors = []
    self.uid = 0
    self.registry_problems = []
    self.alive_reports = []  # (seq, reported, kernel truth)
    self.max_live = {'fabric.fifo': 0, 'fabric.lifo': 0}
    self.pq_violations = []
    self.events = {}
    self.last_pub = {}
    self.aos = {}
    self.ao_dispatch = []
    self.ao_wakes = []
    self.in_start_stop = 0

  def label_of(self, qi):
    return self.inner[qi]._label

  def build(self):
    ao = seams.mods['activeobject']
    for i, q in enumerate(self.sc['queues']):
      if q['kind'] == 'locking':
        o = ao.LockingDeque()
        inner = o.deque
      elif q['kind'] == 'faulty':
        o = FaultyDeque(maxlen=q.get('maxlen', 500))
        o._fail_at = tuple(q.get('fail_at', (0,)))
        inner = o
      else:
        o = prims.SimDeque(maxlen=q.get('maxlen', 500))
        inner = o
      inner._watch = True
      self.queues.append(o)
      self.inner.append(inner)
      for j in range(q.get('prefill', 0)):
        # equal contents in distinct queues: the same pre-filled marker object
        inner.append(self.sc.get('prefill_item', 'old'))
    if not self.sc.get('lazy_fabric'):
      self.fabric = ao.ActiveFabric()
    # else: nobody has asked for the fabric yet; every client asks for it itself when it begins

  def monitor(self, sim):
    for role in ('fabric.fifo', 'fabric.lifo'):
      n = 0
      for t in sim.threads:
        if t.role == role and t.state != kernel.DONE:
          n += 1
      if n > self.max_live[role]:
        self.max_live[role] = n

  def kernel_alive(self):
    a = any(t.role == 'fabric.fifo' and t.state != kernel.DONE for t in self.sim.threads)
    b = any(t.role == 'fabric.lifo' and t.state != kernel.DONE for t in self.sim.threads)
    return a and b

  def check_registry(self, after_op):
    """structural invariant of the subscription registry (identity based)"""
    f = self.fabric

    def members(entry):
      # the registry keeps, per signal, the subscribed queues: as a list today; a mapping whose values are the queues
      # would do as well.  Anything else is not looked into (the deliveries are what the property is about)
      if isinstance(entry, dict):
        entry = list(entry.values())
      if isinstance(entry, (list, tuple, set, frozenset)) or hasattr(entry, 'snapshot'):
        lst = list(entry.snapshot()) if hasattr(entry, 'snapshot') else list(entry)
        if all(any(q is o for o in self.queues) for q in lst):
          return lst
      return None
    for kind, reg in (('fifo', getattr(f, 'fifo_subscriptions', None)), ('lifo', getattr(f, 'lifo_subscriptions', None))):
      if not isinstance(reg, dict):
        continue
      for sig in sorted(reg.keys()):
        lst = members(reg[sig])
        if lst is None:
          continue
        ids = [id(q) for q in lst]
        if len(set(ids)) != len(ids):
          self.registry_problems.append(('duplicate', kind, sig, after_op, [self._qname(q) for q in lst]))
    # nobody may lose a subscription it held
    for s in self.subs:
      if s['end'] is None or s.get('cleared'):
        continue
      reg = getattr(f, 'fifo_subscriptions' if s['kind'] == 'fifo' else 'lifo_subscriptions', None)
      if not isinstance(reg, dict):
        continue
      lst = members(reg.get(s['sig'], []))
      if lst is None:
        continue
      if not any(q is self.queues[s['q']] for q in lst):
        self.registry_problems.append(('lost', s['kind'], s['sig'], after_op, 'queue %d no longer registered; registry holds %s' % (s['q'], [self._qname(q) for q in lst])))

  def _qname(self, q):
    for i, o in enumerate(self.queues):
      if o is q:
        return 'q%d' % i
    return '?'

  def client(self, k, script):
    ev = seams.mods['event']
    sim = self.sim
    f = self.fabric
    if f is None:
      f = seams.mods['activeobject'].ActiveFabric()
      if self.fabric is None:
        self.fabric = f
    for i, op in enumerate(script):
      kind = op[0]
      b = sim.record('fab', 'op', 'begin', (k, i, kind))
      out = None
      try:
        if kind == 'subscribe':
          _, qi, sig, sk, form = op
          arg = ev.Event(signal=sig) if form == 'event' else getattr(ev.signals, sig)
          rec = {'q': qi, 'sig': sig, 'kind': sk, 'begin': b, 'end': None}
          self.subs.append(rec)
          f.subscribe(self.queues[qi], arg, queue_type=sk if sk != 'default' else None)
          if sk == 'default':
            rec['kind'] = 'fifo'
          rec['end'] = sim.seq
          self.check_registry((k, i))
        elif kind == 'publish':
          _, sig, prio = op
          self.uid += 1
          uid = 'p%d' % self.uid
          e = ev.Event(signal=sig, payload=uid)
          self.events[uid] = e
          self.pubs[uid] = {'sig': sig, 'prio': 1000 if prio is None else prio, 'begin': b, 'end': None, 'client': k,
                            'running': self.kernel_alive() and not self.in_start_stop, 'calls': [[b, None]]}
          self.last_pub[k] = uid
          if prio is None:
            f.publish(e)
          elif self.sc.get('fresh_priorities'):
            # an equal priority computed at run time: a separate int object (like a number read from a message)
            f.publish(e, priority=int(str(prio)))
          else:
            f.publish(e, priority=prio)
          self.pubs[uid]['end'] = sim.seq
          self.pubs[uid]['calls'][0][1] = sim.seq
          # did the fabric run for the whole of the call?  (no start/stop call in progress or completed in between)
          self.pubs[uid]['running_after'] = self.kernel_alive() and not any(
            o[2][0] in ('stop', 'start') and o[4] > b for o in self.ops_log) and not self.in_start_stop
        elif kind == 'republish':
          # the very same Event object is published once more
          uid = self.last_pub.get(k)
          if uid is not None:
            call = [b, None]
            self.pubs[uid]['calls'].append(call)
            f.publish(self.events[uid])
            call[1] = sim.seq
        elif kind == 'start':
          self.in_start_stop += 1
          try:
            f.start()
          finally:
            self.in_start_stop -= 1
        elif kind == 'stop':
          self.in_start_stop += 1
          try:
            f.stop()
          finally:
            self.in_start_stop -= 1
          # any delivery thread the kernel still knows as running (whatever handles the fabric kept)
          out = any(t.role in ('fabric.fifo', 'fabric.lifo') and t.state != kernel.DONE for t in self.sim.threads)
        elif kind == 'clear':
          f.clear()
          for s in self.subs:
            if not s.get('cleared'):
              s['cleared'] = True
              s['cleared_at'] = sim.seq
        elif kind == 'is_alive':
          truth_before = self.kernel_alive()
          r = f.is_alive()
          truth_after = self.kernel_alive()
          self.alive_reports.append((sim.seq, r, truth_before, truth_after))
        elif kind == 'sleep':
          seams._time_facade.sleep(op[1])
        elif kind == 'ao_start':
          out = self.ao_start(op[1])
        elif kind == 'ao_wake':
          out = self.ao_wake(op[1])
        elif kind == 'ao_print':
          # live output through the writer thread (ActiveObject.print), whatever the fabric is doing
          o = self.aos.get(op[1])
          if o is not None:
            o.print('note %d' % i)
        elif kind == 'pop':
          # a consumer of a plain deque taking what was delivered so far
          try:
            self.queues[op[1]].popleft()
          except IndexError:
            pass
      except kernel.SimAbort:
        raise
      except BaseException as e:  # noqa
        import traceback
        self.errors.append((k, i, op, type(e).__name__, traceback.format_exc()[-700:]))
        out = 'exc:' + type(e).__name__
      e_ = sim.record('fab', 'op', 'end', (k, i, kind))
      self.ops_log.append((k, i, op, b, e_, out))

  def ao_start(self, idx):
    """create active object #idx with a one-state chart and start it (this is how the
    fabric is normally started: by the first active object)"""
    ao = seams.mods['activeobject']
    ev = seams.mods['event']
    rs, signals = ev.return_status, ev.signals
    run = self

    def only(chart, e):
      if e.signal in (signals.ENTRY_SIGNAL, signals.INIT_SIGNAL, signals.EXIT_SIGNAL):
        return rs.HANDLED
      if e.signal_name == 'WAKE':
        run.ao_dispatch.append((run.sim.seq, idx, e.payload))
        return rs.HANDLED
      chart.temp.fun = chart.top
      return rs.SUPER
    only.__name__ = 'only%d' % idx
    o = ao.ActiveObject(name='ao%d' % idx)
    self.aos[idx] = o
    o.start_at(seams.mods['hsm'].spy_on(only))
    return True

  def ao_wake(self, idx):
    """post an event to active object #idx and give it time to react; reports whether its
    thread is still alive afterwards and whether the event was dispatched"""
    ev = seams.mods['event']
    o = self.aos.get(idx)
    if o is None:
      return None
    self.uid += 1
    uid = 'w%d' % self.uid
    fabric_running = self.kernel_alive()
    o.post_fifo(ev.Event(signal='WAKE', payload=uid))
    seams._time_facade.sleep(0.01)
    th = o.thread
    alive = th is not None and th._ctl is not None and th._ctl.state != kernel.DONE
    got = any(d[2] == uid for d in self.ao_dispatch)
    self.ao_wakes.append({'ao': idx, 'uid': uid, 'alive_after': alive, 'dispatched': got, 'fabric_running_before': fabric_running,
                          'fabric_running_after': self.kernel_alive(), 'seq': self.sim.seq})
    return alive

  def deliveries(self):
    """[(seq, thread role, queue index, 'append'|'appendleft', uid)] for events put into subscriber queues"""
    labels = {self.inner[i]._label: i for i in range(len(self.inner))}
    out = []
    for seq, tn, kind, label, op, detail in self.sim.history:
      if kind == 'deque' and label in labels and op in ('append', 'appendleft'):
        uid = getattr(detail, 'payload', None)
        if uid in self.pubs:
          out.append((seq, tn.split('#')[0], labels[label], op, uid, tn))
    return out


def run_fabric(sc, sched, max_steps=150000, settle=True):
  sim = common.new_sim(sc, sched, max_steps=max_steps, default_gran='line')
  run = FabricRun(sc, sim)
  sim.monitors.append(run.monitor)
  if sc.get('stalls'):
    sim.stall_plan = {int(k): v for k, v in sc['stalls'].items()}
    if sc.get('stall_roles'):
      sim.stall_roles = tuple(sc['stall_roles'])

  def on_pq_get(pq, item, stamp, snap):
    # C08: nothing that had to go first may still be queued
    uid = getattr(getattr(item, 'event', None), 'payload', None)
    me = run.pubs.get(uid)
    if me is None:
      return
    for other in list(pq._items):
      ouid = getattr(getattr(other, 'event', None), 'payload', None)
      o = run.pubs.get(ouid)
      if o is None:
        continue
      if o['prio'] < me['prio']:
        run.pq_violations.append(('priority', uid, ouid, me['prio'], o['prio'], pq._label, len(pq._items) + 1))
      elif o['prio'] == me['prio'] and o['end'] is not None and o['end'] < me['begin']:
        run.pq_violations.append(('publish-order', uid, ouid, me['prio'], o['prio'], pq._label, len(pq._items) + 1))
    n = len(pq._items) + 1
    if n >= 3:
      sim.probe('fabric_get_with_3_or_more_items')
      pr = [getattr(x, 'priority', None) for x in pq._items] + [getattr(item, 'priority', None)]
      if len(set(pr)) < len(pr):
        sim.probe('fabric_get_with_priority_tie')
  sim.on_pq_get = on_pq_get

  def main():
    run.build()
    for k, script in enumerate(sc['clients']):
      sim.spawn(run.client, (k, script), role='client')

  def state_fn():
    f = run.fabric
    if f is None:
      return ()
    return (sum(1 for t in sim.threads if t.role == 'fabric.fifo' and t.state != kernel.DONE),
            sum(1 for t in sim.threads if t.role == 'fabric.lifo' and t.state != kernel.DONE),
            min(f.fifo_fabric_queue._qsize(), 6), min(f.lifo_fabric_queue._qsize(), 6),
            tuple(min(q.real_len(), 4) for q in run.inner),
            tuple(sorted((k, len(v)) for k, v in f.fifo_subscriptions.items())),
            tuple(sorted((k, len(v)) for k, v in f.lifo_subscriptions.items())))
  sim.state_fn = state_fn

  sim.spawn(main, role='main')
  reason = sim.run()
  return run, sim, reason
