"""Chart world: one generated chart on one host, driven through an op history by one
simulated client thread (the active-object hosts add miros' own threads).  Produces a
ChartRun: per op, what the handlers did (ground truth recorded inside handler bodies),
what miros reports, and what the reference model predicts."""
import copy
import random

from sim import kernel, seams, prims
from sim.runner import RunResult
from worlds import common, chartgen
from worlds.chartgen import Spec
from models.refhsm import RefHSM, FaultReached

HOSTS = ('plain', 'instrumented', 'queued', 'ao', 'factory')


class StepObs(object):
  """observations made right after one op"""
  __slots__ = ('op', 'recs', 'exc', 'state', 'state_name', 'state_fn_name', 'state_fn_ok',
               'current_state', 'spy_rtc', 'spy_full', 'trace', 'ret', 'dispatched', 'live_spy',
               'live_trace', 'queue', 'deferred', 'pred', 'tb', 'trace_text_ok', 'instrumented',
               'trace_len_before', 'spy_full_before', 'model_q', 'model_d', 'trace_before', 'posted',
               'trace_objs', 'trace_objs_before', 'sib_got', 'sib_pred', 'sib_queue', 'sib_model')

  def __init__(self, op):
    self.op = op
    self.recs = []
    self.exc = None
    self.tb = ''
    self.state = None
    self.state_name = None
    self.state_fn_name = None
    self.state_fn_ok = None
    self.current_state = None
    self.spy_rtc = None
    self.spy_full = None
    self.trace = None
    self.ret = None
    self.dispatched = []
    self.live_spy = []
    self.live_trace = []
    self.queue = None
    self.deferred = None
    self.pred = None
    self.trace_text_ok = None
    self.instrumented = None
    self.trace_len_before = None
    self.spy_full_before = None
    self.model_q = None
    self.model_d = None
    self.trace_before = None
    self.trace_objs = None          # the record objects themselves (kept alive: identity tells new records from old ones)
    self.trace_objs_before = None
    self.posted = []
    self.sib_got = None
    self.sib_pred = None
    self.sib_queue = None
    self.sib_model = None


class QueueModel(object):
  """deque + defer deque of event ids driven by the same operations (C14/C15)"""

  def __init__(self, capacity):
    self.q = []
    self.d = []
    self.cap = capacity
    self.displaced = []

  def post_fifo(self, ev):
    if len(self.q) >= self.cap:
      self.displaced.append(self.q.pop(0))   # collections.deque(maxlen) semantics
    self.q.append(ev)

  def post_lifo(self, ev):
    if len(self.q) >= self.cap:
      self.displaced.append(self.q.pop())
    self.q.insert(0, ev)

  def defer(self, ev):
    if len(self.d) >= self.cap:
      self.d.pop(0)
    self.d.append(ev)

  def recall(self):
    if not self.d:
      return None
    ev = self.d.pop(0)
    self.post_fifo(ev)
    return ev


class ChartRun(object):

  def __init__(self, sc, sim):
    self.sc = sc
    self.sim = sim
    self.spec = Spec(copy.deepcopy(sc['spec']))     # late registrations change the table of this run only
    self.host = sc['host']
    self.steps = []          # StepObs
    self.chart = None
    self.build = None
    self.cur_recs = None
    self.uid = 0
    self.live_spy_buf = []
    self.live_trace_buf = []
    self.ref = RefHSM(self.spec, sc.get('malform_model'))
    self.fault_op = None     # index of the op predicted to reach the malformation
    self.qm = QueueModel(sc.get('queue_size') or 500)
    self.fx_fired = {}
    self.events = {}         # uid -> Event
    self.fatal = None
    self.dispatch_buf = []
    self.started = False
    self.created = []        # uids of events created since the last observation
    self.vars = {v: False for v in sc['spec'].get('vars', [])}
    self.rev = {}            # id(handler) -> state name
    self.companion = None
    self.companion_log = []
    self.companion_problems = []
    self.sib = None          # a second, independent queued chart alive in the same process (sc['sibling'])
    self.sib_log = []
    self.sib_q = []

  def make_sibling(self):
    ev = seams.mods['event']
    hsm = seams.mods['hsm']
    rs, signals = ev.return_status, ev.signals
    log = self.sib_log
    user_signals = set(self.spec.signals)

    def sib_only(chart, e):
      if e.signal in (signals.ENTRY_SIGNAL, signals.INIT_SIGNAL, signals.EXIT_SIGNAL):
        return rs.HANDLED
      if e.signal_name in user_signals:
        log.append(getattr(e, 'payload', None))
        return rs.HANDLED
      chart.temp.fun = chart.top
      return rs.SUPER
    self.sib = hsm.HsmWithQueues()
    self.sib.start_at(hsm.spy_on(sib_only))

  # ---- a second, independent chart: actions of the chart under test send it events ("orthogonal component")
  def poke(self):
    ev = seams.mods['event']
    hsm = seams.mods['hsm']
    rs, signals = ev.return_status, ev.signals
    if self.companion is None:
      log = self.companion_log

      def c_outer(chart, e):
        if e.signal == signals.ENTRY_SIGNAL:
          log.append('enter outer'); return rs.HANDLED
        if e.signal == signals.EXIT_SIGNAL:
          log.append('exit outer'); return rs.HANDLED
        if e.signal == signals.INIT_SIGNAL:
          return chart.trans(c_a)
        chart.temp.fun = chart.top
        return rs.SUPER

      def c_mid(chart, e):
        if e.signal == signals.ENTRY_SIGNAL:
          log.append('enter mid'); return rs.HANDLED
        if e.signal == signals.EXIT_SIGNAL:
          log.append('exit mid'); return rs.HANDLED
        chart.temp.fun = c_outer
        return rs.SUPER

      def c_a(chart, e):
        if e.signal == signals.ENTRY_SIGNAL:
          log.append('enter a'); return rs.HANDLED
        if e.signal == signals.EXIT_SIGNAL:
          log.append('exit a'); return rs.HANDLED
        if e.signal_name == 'PK':
          return chart.trans(c_b)
        chart.temp.fun = c_mid
        return rs.SUPER

      def c_deep(chart, e):
        if e.signal == signals.ENTRY_SIGNAL:
          log.append('enter deep'); return rs.HANDLED
        if e.signal == signals.EXIT_SIGNAL:
          log.append('exit deep'); return rs.HANDLED
        chart.temp.fun = c_outer
        return rs.SUPER

      def c_deeper(chart, e):
        if e.signal == signals.ENTRY_SIGNAL:
          log.append('enter deeper'); return rs.HANDLED
        if e.signal == signals.EXIT_SIGNAL:
          log.append('exit deeper'); return rs.HANDLED
        chart.temp.fun = c_deep
        return rs.SUPER

      def c_b(chart, e):
        if e.signal == signals.ENTRY_SIGNAL:
          log.append('enter b'); return rs.HANDLED
        if e.signal == signals.EXIT_SIGNAL:
          log.append('exit b'); return rs.HANDLED
        if e.signal_name == 'PK':
          return chart.trans(c_a)
        chart.temp.fun = c_deeper
        return rs.SUPER
      self.companion = hsm.HsmEventProcessor()
      self.companion.start_at(c_outer)
      self.companion_states = ('c_a', 'c_b')
      del log[:]
    c = self.companion
    before = c.state.fun.__name__
    n0 = len(self.companion_log)
    c.dispatch(ev.Event(signal='PK'))
    after = c.state.fun.__name__
    got = self.companion_log[n0:]
    want = (['exit a', 'exit mid', 'enter deep', 'enter deeper', 'enter b'] if before == 'c_a'
            else ['exit b', 'exit deeper', 'exit deep', 'enter mid', 'enter a'])
    if got != want or after == before:
      self.companion_problems.append((before, after, got, want))
    self.sim.probe('nested_dispatch_to_other_chart')

  def ref_state_at(self, i):
    for j in range(min(i, len(self.steps)) - 1, -1, -1):
      if self.steps[j].state is not None:
        return self.steps[j].state
    return None

  # ---- ground-truth recorder handed to the builds
  def rec(self, what, state, sig, extra):
    if self.cur_recs is not None:
      self.cur_recs.append((what, state, sig, extra))

  def new_event(self, sig, uid=None):
    ev = seams.mods['event']
    if uid is None:
      self.uid += 1
      # the payload identifies the event; it is a string, or (sc['uid_kind'] == 'int') a number
      uid = 100000 + self.uid if self.sc.get('uid_kind') == 'int' else 'e%d' % self.uid
    e = ev.Event(signal=sig, payload=uid)
    self.events[uid] = e
    self.created.append(uid)
    return e

  # ---- side effects executed inside handlers (mirrors RefHSM._fx)
  def effects(self, chart, e, f):
    n = self.fx_fired.get(f['id'], 0)
    if n >= f.get('max', 1):
      return
    self.fx_fired[f['id']] = n + 1
    op = f['op']
    uid = 'fx%d.%d' % (f['id'], n)
    if op == 'setvar':
      self.vars[f['var']] = f['value']
      return
    if op == 'query':
      # a handler that looks at the chart while it handles an event
      try:
        if f['q'] == 'is_in':
          chart.is_in(chart.top if f['arg'] == 'top' else self.build.h[f['arg']])
        elif f['q'] == 'child':
          chart.child_state(chart.top if f['arg'] == 'top' else self.build.h[f['arg']])
        elif hasattr(chart, 'current_state'):
          chart.current_state()
      except AssertionError:
        pass     # child_state of a state that does not enclose the current one
      return
    if op == 'poke':
      self.poke()
      return
    if not hasattr(chart, 'post_fifo'):
      return
    self.rec('fx', op, f.get('sig') or f.get('text'), uid)
    if op == 'post_fifo':
      chart.post_fifo(self.new_event(f['sig'], uid))
    elif op == 'post_lifo':
      chart.post_lifo(self.new_event(f['sig'], uid))
    elif op == 'defer':
      chart.defer(e)
    elif op == 'defer_new':
      chart.defer(self.new_event(f['sig'], uid))
    elif op == 'recall':
      chart.recall()
    elif op == 'scribble':
      chart.scribble(f['text'])
    elif op == 'clear_spy':
      # a handler empties the spy log in the middle of a step (say at the start of a test phase)
      if hasattr(chart, 'clear_spy'):
        chart.clear_spy()
        self.sim.probe('clear_spy_called_from_a_handler')
    elif op == 'stop':
      # an active object stops itself from one of its handlers (the last step of the history)
      if hasattr(chart, 'stop') and self.host in ('ao', 'factory'):
        chart.stop()
        self.sim.probe('stop_called_from_a_handler')

  # ---- construction
  def make(self):
    sc = self.sc
    hsm = seams.mods['hsm']
    ao = seams.mods['activeobject']
    if sc.get('queue_size'):
      seams.set_queue_size(sc['queue_size'])
    rings = sc.get('rings')
    if rings:
      seams.set_ring_sizes(rings.get('spy'), rings.get('trc'), rings.get('rtc'))
    host = self.host
    flag = sc.get('instrumented', True)
    if host == 'plain':
      c = hsm.HsmEventProcessor()
    elif host == 'instrumented':
      c = hsm.InstrumentedHsmEventProcessor()
    elif host == 'queued':
      c = hsm.HsmWithQueues(instrumented=flag)
    elif host == 'ao':
      # without a name the object asks its start state for one (only a decorated state answers that query)
      nameless = sc.get('nameless') and sc['build'] in ('closure-spied', 'template', 'to_code')
      c = ao.ActiveObject(name=None if nameless else 'chart', instrumented=flag)
    elif host == 'factory':
      c = ao.Factory('chart')
    else:
      raise ValueError(host)
    self.chart = c
    b = sc['build']
    fx = self.effects
    if b == 'closure':
      self.build = chartgen.build_closure(self.spec, self.rec, spied=False, effects=fx, malform=sc.get('malform'))
    elif b == 'closure-spied':
      self.build = chartgen.build_closure(self.spec, self.rec, spied=True, effects=fx, malform=sc.get('malform'))
    elif b == 'closure-mixed':
      # the decorator is on some states only (drawn from sc['mix']; at least one state has it and one has not)
      names = sorted(self.spec.states)
      mr = random.Random(sc.get('mix', 0))
      un = [n for n in names if mr.random() < 0.5]
      if not un:
        un = [names[mr.randrange(len(names))]]
      if len(un) == len(names) and len(names) > 1:
        un.pop(mr.randrange(len(un)))
      self.build = chartgen.build_closure(self.spec, self.rec, spied=True, effects=fx, malform=sc.get('malform'), unspied=frozenset(un))
    elif b == 'template':
      self.build = chartgen.build_template(self.spec, self.rec, c, effects=fx)
    elif b == 'factory':
      self.build = chartgen.build_factory(self.spec, self.rec, c, effects=fx)
    elif b == 'to_code':
      base = chartgen.build_factory(self.spec, self.rec, c, effects=fx) if host == 'factory' \
          else chartgen.build_template(self.spec, self.rec, c, effects=fx)
      self.build = chartgen.build_to_code(self.spec, self.rec, c, base, effects=fx)
    else:
      raise ValueError(b)
    self.build.vars = self.vars
    if sc.get('twin') and b in ('template', 'factory', 'to_code'):
      # a second chart of the same kind, assembled afterwards from states with the very same names but with nothing in
      # them and another nesting: two charts in one process must not see each other's callback and parent tables
      tspec = Spec(copy.deepcopy(sc['spec']))
      for st in tspec.d['states']:
        st['react'], st['init'], st['fx'], st['parent'] = {}, None, {}, None
      tspec = Spec(tspec.d)
      try:
        if host == 'factory':
          self.twin = ao.Factory('twin')
          chartgen.build_factory(tspec, lambda *a: None, self.twin, effects=None)
        else:
          self.twin = hsm.HsmWithQueues()
          chartgen.build_template(tspec, lambda *a: None, self.twin, effects=None)
        self.sim.probe('second_chart_with_the_same_state_names')
      except kernel.SimAbort:
        raise
    for n_, h_ in self.build.h.items():
      self.rev[id(h_)] = n_
      w_ = getattr(h_, '__wrapped__', None)
      if w_ is not None:
        self.rev[id(w_)] = n_
    if host in ('queued', 'ao', 'factory'):
      if sc.get('live_spy'):
        c.live_spy = True
      if sc.get('live_trace'):
        c.live_trace = True
      c.register_live_spy_callback(lambda line: self.live_spy_buf.append(line))
      c.register_live_trace_callback(lambda line: self.live_trace_buf.append(line))
      # which event does each step dispatch?  (instance-level interception of the
      # public dispatch method, miros itself is untouched)
      orig = c.dispatch

      def dispatch(e):
        self.dispatch_buf.append((getattr(e, 'payload', None), e.signal_name))
        self.rec('dispatch', None, e.signal_name, getattr(e, 'payload', None))
        return orig(e)
      c.dispatch = dispatch
    q = getattr(c, 'queue', None)
    if isinstance(q, prims.SimDeque):
      q._watch = True

  # ---- waiting for an active object to be idle
  def await_idle(self):
    c = self.chart
    sim = self.sim
    ld = c.locking_deque
    writer = c.writer

    def idle():
      th = c.thread
      if th is None or th._ctl is None:
        return True
      ctl = th._ctl
      if ctl.state == kernel.DONE:
        return True
      if not (ctl.state == kernel.BLOCKED and ctl.desc.startswith('get:')):
        return False
      if ld.deque.real_len() != 0 or ld.locking_queue._qsize() != 0:
        return False
      fab = getattr(c, 'fabric', None)
      if fab is not None:
        if fab.fifo_fabric_queue._qsize() != 0 or fab.lifo_fabric_queue._qsize() != 0:
          return False
        for t in sim.threads:
          if t.role in ('fabric.fifo', 'fabric.lifo') and t.state != kernel.DONE and not (t.state == kernel.BLOCKED and t.desc.startswith('get:')):
            return False
      if writer._queue._qsize() != 0:
        return False
      wt = writer._thread
      if wt is not None and wt._ctl is not None and wt._ctl.state not in (kernel.DONE,):
        if not (wt._ctl.state == kernel.BLOCKED and wt._ctl.desc.startswith('get:')):
          return False
      return True

    if not idle():
      sim.block(idle, None, 'await_idle')

  # ---- observations
  def observe(self, ob):
    c = self.chart
    host = self.host
    ob.live_spy, self.live_spy_buf = self.live_spy_buf, []
    ob.live_trace, self.live_trace_buf = self.live_trace_buf, []
    ob.dispatched, self.dispatch_buf = self.dispatch_buf, []
    if not self.started:
      return
    try:
      fun = c.state.fun
      # by identity: distinct state functions may share a __name__
      ob.state = self.rev.get(id(fun)) or getattr(fun, '__name__', None)
    except AttributeError:
      ob.state = None
    ob.state_name = getattr(c, 'state_name', None)
    fn = getattr(c, 'state_fn', None)
    ob.state_fn_name = getattr(fn, '__name__', None)
    cur = ob.state
    if cur in self.build.h:
      h = self.build.h[cur]
      ob.state_fn_ok = fn is h or fn is getattr(h, '__wrapped__', None)
    elif cur == 'top':
      ob.state_fn_ok = (ob.state_fn_name == 'top')
    ob.instrumented = getattr(c, 'instrumented', None)
    if host in ('queued', 'ao', 'factory') and getattr(c, 'instrumented', False):
      ob.current_state = c.current_state()
    if hasattr(c, 'rtc') and getattr(c, 'instrumented', False):
      ob.spy_rtc = list(c.rtc.spy)
      ob.spy_full = list(c.full.spy)
      ob.trace = [(t.start_state, t.signal, t.end_state, t.datetime) for t in c.full.trace]
      ob.trace_objs = list(c.full.trace)
    if host in ('queued',):
      snap = lambda q: q.snapshot() if isinstance(q, prims.SimDeque) else list(q)
      ob.queue = [getattr(e, 'payload', None) for e in snap(c.queue)]
      ob.deferred = [getattr(e, 'payload', None) for e in snap(c.defer_queue)]
    if self.sib is not None:
      q = self.sib.queue
      ob.sib_queue = [getattr(e, 'payload', None) for e in (q.snapshot() if isinstance(q, prims.SimDeque) else list(q))]
      ob.sib_model = list(self.sib_q)

  def do(self, op, fn):
    ob = StepObs(op)
    self.cur_recs = ob.recs
    c = self.chart
    if hasattr(c, 'full') and getattr(c, 'instrumented', False):
      ob.trace_before = [(t.start_state, t.signal, t.end_state, t.datetime) for t in c.full.trace]
      ob.trace_objs_before = list(c.full.trace)
      ob.trace_len_before = len(ob.trace_before)
      ob.spy_full_before = list(c.full.spy)
    try:
      ob.ret = fn()
    except kernel.SimAbort:
      raise
    except BaseException as e:  # noqa: the op raised: that is an observation
      import traceback
      ob.exc = type(e).__name__
      ob.tb = traceback.format_exc()[-1200:]
    self.cur_recs = None
    ob.posted, self.created = [u for u in self.created if not str(u).startswith('fx')], []
    self.observe(ob)
    ob.model_q = [u for u, _ in self.qm.q]
    ob.model_d = [u for u, _ in self.qm.d]
    self.steps.append(ob)
    return ob

  # ---- the client thread
  def client(self):
    sc = self.sc
    c = self.chart
    host = self.host
    build = self.build
    is_ao = host in ('ao', 'factory')

    def start():
      ev = seams.mods['event']
      for pre in sc.get('pre_start') or []:
        # requests made before start_at travel to the object's thread as meta events
        if pre[0] == 'subscribe':
          if hasattr(c, 'subscribe'):
            c.subscribe(ev.Event(signal=pre[1]))
        elif pre[0] == 'publish':
          if hasattr(c, 'publish'):
            c.publish(ev.Event(signal=pre[1]))
        elif pre[0] == 'defer':
          # an event is set aside before the chart is started
          c.defer(pre_events.pop(0))
      c.start_at(build.h[sc['start']])
      self.started = True
      if sc.get('sibling'):
        self.make_sibling()
      if is_ao:
        self.await_idle()
    pred0 = None
    pre_events = []
    for pre in sc.get('pre_start') or []:
      if pre[0] == 'defer':
        e = self.new_event(pre[1])
        pre_events.append(e)
        self.qm.defer((e.payload, pre[1]))
    try:
      pred0 = self.ref.start(sc['start'])
      self._apply_fx(pred0, None)
      if is_ao:
        # an active object dispatches what start_at's handlers posted as soon as it runs
        pred0['steps'] = self._model_circuit()['steps']
    except FaultReached:
      self.fault_op = 0
      pred0 = None
    ob = self.do(['start', sc['start']], start)
    ob.pred = pred0
    if ob.exc is not None:
      return
    for op in sc['ops']:
      k = op[0]
      pred = None
      if k == 'ev':
        e = self.new_event(op[1])
        if host in ('plain', 'instrumented'):
          pred = self._model_dispatch(e.payload, op[1])
          ob = self.do(op, lambda: c.dispatch(e))
        elif host == 'queued':
          def f():
            c.post_fifo(e)
            return c.next_rtc()
          self.qm.post_fifo((e.payload, op[1]))
          pred = self._model_rtc()
          ob = self.do(op, f)
        else:
          def f():
            c.post_fifo(e)
            self.await_idle()
          self.qm.post_fifo((e.payload, op[1]))
          pred = self._model_circuit()
          ob = self.do(op, f)
      elif k == 'pub':
        # the event comes through the publish/subscribe fabric: the object subscribed to the signal before it was
        # started and publishes it itself (hosts without a fabric are simply posted the event)
        e = self.new_event(op[1])
        self.qm.post_fifo((e.payload, op[1]))
        if is_ao:
          def f():
            c.publish(e)
            self.await_idle()
          pred = self._model_circuit()
          ob = self.do(op, f)
        elif host == 'queued':
          def f():
            c.post_fifo(e)
            return c.next_rtc()
          pred = self._model_rtc()
          ob = self.do(op, f)
        else:
          self.qm.q.pop()
          pred = self._model_dispatch(e.payload, op[1])
          ob = self.do(op, lambda: c.dispatch(e))
      elif k == 'restart':
        # start_at called again on a chart that has been running: it starts over from the outside
        try:
          pred = self.ref.start(op[1])
          self._apply_fx(pred, None)
        except FaultReached:
          pred = None
        ob = self.do(op, lambda: c.start_at(build.h[op[1]]))
      elif k == 'post_fifo':
        e = self.last_posted = self.new_event(op[1])
        self.qm.post_fifo((e.payload, op[1]))
        ob = self.do(op, lambda: c.post_fifo(e))
      elif k == 'post_lifo':
        e = self.last_posted = self.new_event(op[1])
        self.qm.post_lifo((e.payload, op[1]))
        ob = self.do(op, lambda: c.post_lifo(e))
      elif k in ('repost_fifo', 'repost_lifo'):
        # the very same Event object is posted once more (a tick object kept by its poster)
        e = getattr(self, 'last_posted', None)
        if e is None:
          e = self.last_posted = self.new_event(self.spec.signals[0])
        if k == 'repost_fifo':
          self.qm.post_fifo((e.payload, e.signal_name))
          ob = self.do(op, lambda: c.post_fifo(e))
        else:
          self.qm.post_lifo((e.payload, e.signal_name))
          ob = self.do(op, lambda: c.post_lifo(e))
      elif k == 'rtc':
        pred = self._model_rtc()
        ob = self.do(op, lambda: c.next_rtc())
      elif k == 'circuit':
        pred = self._model_circuit()
        ob = self.do(op, lambda: c.complete_circuit())
      elif k == 'defer':
        e = self.new_event(op[1])
        self.qm.defer((e.payload, op[1]))
        ob = self.do(op, lambda: c.defer(e))
      elif k == 'recall':
        r = self.qm.recall()
        pred = {'kind': 'recall', 'ret': r[0] if r else None}
        ob = self.do(op, lambda: getattr(c.recall(), 'payload', None))
      elif k == 'is_in':
        tgt = c.top if op[1] == 'top' else build.h[op[1]]
        pred = {'kind': 'is_in', 'ret': self.ref.is_in(op[1])}
        ob = self.do(op, lambda: c.is_in(tgt))
      elif k == 'child':
        tgt = c.top if op[1] == 'top' else build.h[op[1]]
        pred = {'kind': 'child', 'ret': self.ref.child_state(op[1])}

        def f():
          r = c.child_state(tgt)
          return self.rev.get(id(r)) or getattr(r, '__name__', None)
        ob = self.do(op, f)
      elif k == 'register':
        # event handling added (or replaced) after the chart was built and has been running
        _, sname, sig, reaction = op
        self.spec.states[sname]['react'][sig] = copy.deepcopy(reaction)

        def f():
          if build.kind in ('template', 'factory'):
            ev = seams.mods['event']
            cb = build.make_cb(self.spec.states[sname], sig)
            build.cbs[(sname, sig)] = cb
            c.register_signal_callback(build.h[sname], getattr(ev.signals, sig), cb)
        ob = self.do(op, f)
      elif k in ('sib_post_fifo', 'sib_post_lifo'):
        e = self.new_event(op[1])
        self.created.remove(e.payload)
        cap_ = self.qm.cap       # the second chart's queue is bounded like the first one's
        if k == 'sib_post_fifo':
          if len(self.sib_q) >= cap_:
            self.sib_q.pop(0)
          self.sib_q.append(e.payload)
        else:
          if len(self.sib_q) >= cap_:
            self.sib_q.pop()
          self.sib_q.insert(0, e.payload)
        ob = self.do(op, (lambda: self.sib.post_fifo(e)) if k == 'sib_post_fifo' else (lambda: self.sib.post_lifo(e)))
      elif k == 'sib_rtc':
        want = self.sib_q.pop(0) if self.sib_q else None
        n0 = len(self.sib_log)
        ob = self.do(op, lambda: self.sib.next_rtc())
        ob.sib_pred = want
        ob.sib_got = list(self.sib_log[n0:])
        ob.sib_model = list(self.sib_q)
      elif k in ('clear_spy', 'clear_trace'):
        # the logs are emptied between steps; what later steps add is judged relative to what is there
        ob = self.do(op, (lambda: c.clear_spy()) if k == 'clear_spy' else (lambda: c.clear_trace()))
      elif k == 'live':
        # live output switched on or off between steps
        def f():
          c.live_spy, c.live_trace = bool(op[1]), bool(op[2])
        ob = self.do(op, f)
      elif k == 'read':
        def f():
          out = {}
          if hasattr(c, 'spy'):
            out['spy'] = c.spy()
          if hasattr(c, 'trace'):
            out['trace'] = c.trace()
          return out
        ob = self.do(op, f)
      else:
        raise ValueError(op)
      ob.pred = pred
      if self.fault_op is not None:
        break
      if ob.exc is not None and k not in ('child',):
        # an op that raised leaves the chart in an undefined state: stop the history here
        break

  # ---- model side
  def _apply_fx(self, pred, cur_ev):
    for f, n in pred.get('fx', []):
      uid = 'fx%d.%d' % (f['id'], n)
      op = f['op']
      if op == 'post_fifo':
        self.qm.post_fifo((uid, f['sig']))
      elif op == 'post_lifo':
        self.qm.post_lifo((uid, f['sig']))
      elif op == 'defer':
        self.qm.defer(cur_ev)
      elif op == 'defer_new':
        self.qm.defer((uid, f['sig']))
      elif op == 'recall':
        self.qm.recall()

  def _model_dispatch(self, uid, sig):
    try:
      p = self.ref.step(sig)
    except FaultReached:
      self.fault_op = len(self.steps)
      return None
    p['event'] = uid
    self._apply_fx(p, (uid, sig))
    p['q_after'] = len(self.qm.q)
    p['d_after'] = len(self.qm.d)
    return p

  def _model_rtc(self):
    if not self.qm.q:
      return {'kind': 'empty', 'ret': False, 'steps': []}
    uid, sig = self.qm.q.pop(0)
    p = self._model_dispatch(uid, sig)
    return {'kind': 'rtc', 'ret': True, 'steps': [p]}

  def _model_circuit(self):
    steps = []
    guard = 0
    while self.qm.q and guard < 10000:
      guard += 1
      uid, sig = self.qm.q.pop(0)
      steps.append(self._model_dispatch(uid, sig))
    return {'kind': 'circuit', 'ret': bool(steps), 'steps': steps}


def run_chart(sc, sched, max_steps=60000):
  """returns (ChartRun, sim, reason) - the caller evaluates oracles and must call common.finish"""
  sim = common.new_sim(sc, sched, max_steps=max_steps, default_gran='line')
  clock = sc.get('clock')
  if clock:
    sim.clock = prims.ClockBehaviour(clock.get('kind', 'fine'), clock.get('q_us', 1000),
                                     {int(k): v for k, v in (clock.get('jumps') or {}).items()})
  else:
    sim.clock = prims.ClockBehaviour('fine')
  run = ChartRun(sc, sim)

  def main():
    try:
      run.make()
    except kernel.SimAbort:
      raise
    except BaseException as e:
      import traceback
      run.fatal = '%s: %s\n%s' % (type(e).__name__, e, traceback.format_exc()[-1500:])
      return
    run.client()

  sim.spawn(main, role='client')
  reason = sim.run()
  return run, sim, reason
